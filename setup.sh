#!/bin/bash
# Builds the framework binaries from files on disk (offline).
set -euo pipefail
V="$(cd "$(dirname "$0")" && pwd)"
export GOFLAGS=-mod=mod GOPROXY=off GOSUMDB=off GOTOOLCHAIN=local
mkdir -p "$V/bin" "$V/evidence" "$V/replays"
(cd "$V/tools/instrument" && go1.26.8 build -o "$V/bin/instrument" .)
(cd "$V/tools/driver" && go1.26.8 build -o "$V/bin/driver" .)
# warm the build cache for the worker (std + deps with go1.26.8)
S="$(mktemp -d "${TMPDIR:-/tmp}/verif-setup-XXXXXX")"
trap 'rm -rf "$S"' EXIT
"$V/tools/mkscratch.sh" "$S/s" >/dev/null
"$V/bin/instrument" -dir "$S/s/src" >/dev/null
(cd "$S/s/sim" && go1.26.8 test -c -o "$S/s/worker.test" ./worker)
echo "setup ok"
