package latencymonitor

// Added to the scratch copy only (never to /repo): exposes unexported functions to the harness.

func VerifCrc16(s string) uint16 { return crc16(s) }

func VerifFindKeyInRange(l, r int) string { return findKeyInRange(l, r) }
