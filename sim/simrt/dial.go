package simrt

import (
	"crypto/tls"
	"net"
	"time"
)

// DialFunc is the simulated transport's connect operation.
type DialFunc func(network, addr string) (net.Conn, error)

// SetDialer installs the simulated network for this run.
func (s *Sim) SetDialer(d DialFunc) { s.dialer = d }

// Dial replaces net.Dial and friends in instrumented code.
func Dial(network, addr string) (net.Conn, error) {
	s := current()
	if s == nil || s.dialer == nil {
		return net.Dial(network, addr)
	}
	return s.dialer(network, addr)
}

func DialTimeout(network, addr string, d time.Duration) (net.Conn, error) {
	s := current()
	if s == nil || s.dialer == nil {
		return net.DialTimeout(network, addr, d)
	}
	return s.dialer(network, addr)
}

func DialerDial(d *net.Dialer, network, addr string) (net.Conn, error) {
	s := current()
	if s == nil || s.dialer == nil {
		return d.Dial(network, addr)
	}
	return s.dialer(network, addr)
}

func DialTLS(network, addr string, cfg *tls.Config) (net.Conn, error) {
	s := current()
	if s == nil || s.dialer == nil {
		return tls.Dial(network, addr, cfg)
	}
	return s.dialer(network, addr)
}

func DialTLSWithDialer(d *net.Dialer, network, addr string, cfg *tls.Config) (net.Conn, error) {
	s := current()
	if s == nil || s.dialer == nil {
		return tls.DialWithDialer(d, network, addr, cfg)
	}
	return s.dialer(network, addr)
}
