package simrt

import (
	"crypto/tls"
	"net"
	"time"
)

// DialFunc is the simulated transport's connect operation.
type DialFunc func(network, addr string) (net.Conn, error)

// SetDialer installs the simulated network for this run.
func (s *Sim) SetDialer(d DialFunc) { s.dialer = d }

// Dial replaces net.Dial and friends in instrumented code.
func Dial(network, addr string) (net.Conn, error) {
	s := current()
	if s == nil || s.dialer == nil {
		return net.Dial(network, addr)
	}
	return s.dialer(network, addr)
}

func DialTimeout(network, addr string, d time.Duration) (net.Conn, error) {
	s := current()
	if s == nil || s.dialer == nil {
		return net.DialTimeout(network, addr, d)
	}
	return s.dialer(network, addr)
}

func DialerDial(d *net.Dialer, network, addr string) (net.Conn, error) {
	s := current()
	if s == nil || s.dialer == nil {
		return d.Dial(network, addr)
	}
	return s.dialer(network, addr)
}

func DialTLS(network, addr string, cfg *tls.Config) (net.Conn, error) {
	s := current()
	if s == nil || s.dialer == nil {
		return tls.Dial(network, addr, cfg)
	}
	return s.dialer(network, addr)
}

func DialTLSWithDialer(d *net.Dialer, network, addr string, cfg *tls.Config) (net.Conn, error) {
	s := current()
	if s == nil || s.dialer == nil {
		return tls.DialWithDialer(d, network, addr, cfg)
	}
	return s.dialer(network, addr)
}

// AllocLimit is the largest single []byte allocation the simulated machine grants.
// Redis strings are at most 512 MiB; anything above comes from a corrupted length field.
var AllocLimit = 600 << 20

// AllocFailure is the panic value raised when the simulated machine refuses an allocation
// (the real process would be killed or would thrash); it aborts the simulated process.
type AllocFailure struct{ N int }

func (a AllocFailure) Error() string {
	return "simulated out of memory: allocation of " + itoa(a.N) + " bytes refused"
}

func itoa(n int) string {
	if n == 0 {
		return "0"
	}
	neg := n < 0
	if neg {
		n = -n
	}
	var b [24]byte
	i := len(b)
	for n > 0 {
		i--
		b[i] = byte('0' + n%10)
		n /= 10
	}
	if neg {
		i--
		b[i] = '-'
	}
	return string(b[i:])
}

// MakeBytes replaces make([]byte, n) with a run-time n in instrumented code.
func MakeBytes(n int) []byte {
	if n > AllocLimit {
		if s := current(); s != nil {
			s.Fault("alloc_refused")
		}
		panic(AllocFailure{n})
	}
	return make([]byte, n)
}
