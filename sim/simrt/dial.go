package simrt

import (
	"bufio"
	"crypto/tls"
	"fmt"
	"io"
	"net"
	"os"
	"reflect"
	"sort"
	"sync"
	"time"
)

// DialFunc is the simulated transport's connect operation.
type DialFunc func(network, addr string) (net.Conn, error)

// SetDialer installs the simulated network for this run.
func (s *Sim) SetDialer(d DialFunc) { s.dialer = d }

// Dial replaces net.Dial and friends in instrumented code.
func Dial(network, addr string) (net.Conn, error) {
	s := current()
	if s == nil || s.dialer == nil {
		return net.Dial(network, addr)
	}
	return s.dialer(network, addr)
}

func DialTimeout(network, addr string, d time.Duration) (net.Conn, error) {
	s := current()
	if s == nil || s.dialer == nil {
		return net.DialTimeout(network, addr, d)
	}
	return s.dialer(network, addr)
}

func DialerDial(d *net.Dialer, network, addr string) (net.Conn, error) {
	s := current()
	if s == nil || s.dialer == nil {
		return d.Dial(network, addr)
	}
	return s.dialer(network, addr)
}

func DialTLS(network, addr string, cfg *tls.Config) (net.Conn, error) {
	s := current()
	if s == nil || s.dialer == nil {
		return tls.Dial(network, addr, cfg)
	}
	return s.dialer(network, addr)
}

func DialTLSWithDialer(d *net.Dialer, network, addr string, cfg *tls.Config) (net.Conn, error) {
	s := current()
	if s == nil || s.dialer == nil {
		return tls.DialWithDialer(d, network, addr, cfg)
	}
	return s.dialer(network, addr)
}

// AllocLimit is the largest single []byte allocation the simulated machine grants.
// Redis strings are at most 512 MiB; anything above comes from a corrupted length field.
var AllocLimit = 600 << 20

// AllocFailure is the panic value raised when the simulated machine refuses an allocation
// (the real process would be killed or would thrash); it aborts the simulated process.
type AllocFailure struct{ N int }

func (a AllocFailure) Error() string {
	return "simulated out of memory: allocation of " + itoa(a.N) + " bytes refused"
}

func itoa(n int) string {
	if n == 0 {
		return "0"
	}
	neg := n < 0
	if neg {
		n = -n
	}
	var b [24]byte
	i := len(b)
	for n > 0 {
		i--
		b[i] = byte('0' + n%10)
		n /= 10
	}
	if neg {
		i--
		b[i] = '-'
	}
	return string(b[i:])
}

// MakeBytes replaces make([]byte, n) with a run-time n in instrumented code.
func MakeBytes(n int) []byte {
	if n > AllocLimit {
		if s := current(); s != nil {
			s.Fault("alloc_refused")
		}
		panic(AllocFailure{n})
	}
	return make([]byte, n)
}

// ---- package-level state of the code under test ---------------------------------------------------------------

type resetFn struct {
	name string
	fn   func()
}

var resets []resetFn

// RegisterReset is called from generated init functions of instrumented packages (in package initialisation order).
func RegisterReset(name string, fn func()) { resets = append(resets, resetFn{name, fn}) }

// ResetGlobals re-initialises every mutated package-level variable of the instrumented code, in registration order.
// The worker calls it before each run: the real tool starts every run from a fresh process image.
func ResetGlobals() int {
	for _, r := range resets {
		r.fn()
	}
	auxMu.Lock()
	pools = map[*sync.Pool][]interface{}{}
	onces = map[*sync.Once]*onceState{}
	auxMu.Unlock()
	return len(resets)
}

// ---- sync.Pool, sync.Once, sync.Map.Range --------------------------------------------------------------------

var (
	auxMu sync.Mutex
	pools = map[*sync.Pool][]interface{}{}
	onces = map[*sync.Once]*onceState{}
)

// PoolGet / PoolPut replace sync.Pool with a deterministic last-in-first-out free list that never drops an item (one
// of the behaviours sync.Pool may show): what a later Get returns must not depend on the garbage collector.
func PoolGet(p *sync.Pool) interface{} {
	auxMu.Lock()
	if l := pools[p]; len(l) > 0 {
		x := l[len(l)-1]
		pools[p] = l[:len(l)-1]
		auxMu.Unlock()
		return x
	}
	auxMu.Unlock()
	if p.New != nil {
		return p.New()
	}
	return nil
}

func PoolPut(p *sync.Pool, x interface{}) {
	if x == nil {
		return
	}
	auxMu.Lock()
	pools[p] = append(pools[p], x)
	auxMu.Unlock()
}

type onceState struct {
	st int // 0 not started, 1 running, 2 done
	q  WaitQ
}

// OnceDo replaces (*sync.Once).Do: a task that arrives while f is running parks on the simulator instead of blocking
// on the Once's internal mutex with the baton in hand.
func OnceDo(o *sync.Once, f func(), site string) {
	s := current()
	if s == nil || s.self() == nil {
		o.Do(f)
		return
	}
	auxMu.Lock()
	st := onces[o]
	if st == nil {
		st = &onceState{}
		onces[o] = st
	}
	auxMu.Unlock()
	s.Yield(site)
	switch st.st {
	case 2:
		return
	case 1:
		for st.st == 1 {
			s.ParkOn(&st.q, "once:"+site, 0)
		}
		return
	}
	st.st = 1
	defer func() {
		st.st = 2
		s.WakeAll(&st.q)
	}()
	o.Do(f)
}

// SyncMapRange replaces (*sync.Map).Range: entries are visited in a fixed order (sorted by their printed key), outside
// the map's own iteration, so that neither the order nor a scheduling point inside f depends on the runtime.
func SyncMapRange(m *sync.Map, f func(key, value interface{}) bool) {
	type kv struct {
		ks   string
		k, v interface{}
	}
	var all []kv
	m.Range(func(k, v interface{}) bool {
		all = append(all, kv{fmt.Sprintf("%T:%v", k, k), k, v})
		return true
	})
	sort.Slice(all, func(i, j int) bool { return all[i].ks < all[j].ks })
	for _, e := range all {
		if !f(e.k, e.v) {
			return
		}
	}
}

// ZeroOut sets *p to the zero value of its type (p is a pointer to a package-level variable).
func ZeroOut(p interface{}) {
	v := reflect.ValueOf(p).Elem()
	v.Set(reflect.Zero(v.Type()))
}

// ---- slow storage and slow streams ----------------------------------------------------------------------------

// ioStall is the seam for "slow or stalled disk": in runs that enable it (Config.IOStall) a tape-chosen fraction of the
// tool's file and stream operations is preceded by a stall on the simulated clock. It never draws from the tape otherwise.
func ioStall(site string) {
	s := current()
	if s == nil || s.Cfg.IOStall <= 0 {
		return
	}
	// at most 12 stalls per run: the fault is a slow device, not one that takes hours (byte-wise readers issue
	// thousands of operations)
	if s.ioStalls >= 12 {
		return
	}
	if s.T.Chance(s.Cfg.IOStall) {
		if t := s.self(); t == nil || t.killed {
			return
		}
		s.ioStalls++
		d := time.Duration(50+s.T.Choose(2950)) * time.Millisecond
		s.Fault("io_stall")
		Sleep(d, "io-stall@"+site)
	}
}

func IORead(r io.Reader, p []byte, site string) (int, error) {
	ioStall(site)
	return r.Read(p)
}

func BufioFlush(w *bufio.Writer, site string) error {
	ioStall(site)
	return w.Flush()
}

func BufioWriteString(w *bufio.Writer, str string, site string) (int, error) {
	ioStall(site)
	return w.WriteString(str)
}

func BufioWrite(w *bufio.Writer, b []byte, site string) (int, error) {
	ioStall(site)
	return w.Write(b)
}

func FileRead(f *os.File, b []byte, site string) (int, error) {
	ioStall(site)
	return f.Read(b)
}

func FileWrite(f *os.File, b []byte, site string) (int, error) {
	ioStall(site)
	return f.Write(b)
}

func FileWriteString(f *os.File, str string, site string) (int, error) {
	ioStall(site)
	return f.WriteString(str)
}

// SortPrinted sorts *slicePtr (a slice of map keys of any printable type) by the printed form of its elements.
func SortPrinted(slicePtr interface{}) {
	v := reflect.ValueOf(slicePtr).Elem()
	n := v.Len()
	keys := make([]string, n)
	idx := make([]int, n)
	for i := 0; i < n; i++ {
		keys[i] = fmt.Sprintf("%v", v.Index(i).Interface())
		idx[i] = i
	}
	sort.SliceStable(idx, func(a, b int) bool { return keys[idx[a]] < keys[idx[b]] })
	out := reflect.MakeSlice(v.Type(), n, n)
	for i, j := range idx {
		out.Index(i).Set(v.Index(j))
	}
	v.Set(out)
}
