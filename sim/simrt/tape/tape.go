// Package tape is the single source of every nondeterministic decision of a
// simulated run: scheduler picks, delays, fault placement and workload draws.
// One tape = one execution. In generation mode the tape is extended from a
// PRNG seeded by (VERIF_SEED, run index); in replay mode recorded values are
// used (modulo the arity asked for) and, past the end, 0 — the simplest choice.
//
// Written in the Go 1.14 dialect because it is copied into the tool's module.
package tape

import (
	"encoding/json"
	"fmt"
	"io/ioutil"
)

// pcg is a small self-contained PCG-XSH-RR 64/32 generator, so that tapes do
// not depend on the math/rand implementation of the toolchain.
type pcg struct {
	state uint64
	inc   uint64
}

func newPCG(seed, seq uint64) *pcg {
	p := &pcg{inc: (seq << 1) | 1}
	p.next()
	p.state += seed
	p.next()
	return p
}

func (p *pcg) next() uint32 {
	old := p.state
	p.state = old*6364136223846793005 + p.inc
	xorshifted := uint32(((old >> 18) ^ old) >> 27)
	rot := uint32(old >> 59)
	return (xorshifted >> rot) | (xorshifted << ((-rot) & 31))
}

func (p *pcg) intn(n int) int {
	if n <= 1 {
		return 0
	}
	// rejection sampling for exact uniformity
	un := uint32(n)
	limit := (^uint32(0) / un) * un
	for {
		v := p.next()
		if v < limit {
			return int(v % un)
		}
	}
}

// Tape records and replays choices.
type Tape struct {
	Vals   []uint32 // choices made so far in this execution
	replay []uint32 // values to replay before falling back to rng / zero
	rng    *pcg     // nil: pure replay (0 past the end)
	Seed   uint64
	Run    uint64
	// Counters
	Draws int
}

// New returns a generating tape.
func New(seed, run uint64) *Tape {
	return &Tape{rng: newPCG(seed*0x9E3779B97F4A7C15+run, run^0xda3e39cb94b95bdb), Seed: seed, Run: run}
}

// Replay returns a tape that replays vals and answers 0 afterwards.
func Replay(vals []uint32) *Tape {
	cp := make([]uint32, len(vals))
	copy(cp, vals)
	return &Tape{replay: cp}
}

// ReplayThenRandom replays vals, then continues from the PRNG.
func ReplayThenRandom(vals []uint32, seed, run uint64) *Tape {
	t := New(seed, run)
	t.replay = append([]uint32(nil), vals...)
	return t
}

// Choose returns a value in [0, n). n <= 1 consumes nothing and returns 0.
func (t *Tape) Choose(n int) int {
	if n <= 1 {
		return 0
	}
	t.Draws++
	var v int
	pos := len(t.Vals)
	if pos < len(t.replay) {
		v = int(t.replay[pos] % uint32(n))
	} else if t.rng != nil {
		v = t.rng.intn(n)
	} else {
		v = 0
	}
	t.Vals = append(t.Vals, uint32(v))
	return v
}

// Biased returns 0 with probability p0 per mille, otherwise uniform in [1,n).
// In replay mode it is the recorded value.
func (t *Tape) Biased(n int, p0 int) int {
	if n <= 1 {
		return 0
	}
	t.Draws++
	var v int
	pos := len(t.Vals)
	if pos < len(t.replay) {
		v = int(t.replay[pos] % uint32(n))
	} else if t.rng != nil {
		if t.rng.intn(1000) < p0 {
			v = 0
		} else {
			v = 1 + t.rng.intn(n-1)
		}
	} else {
		v = 0
	}
	t.Vals = append(t.Vals, uint32(v))
	return v
}

// Chance returns true with probability perMille/1000; false is the simple
// choice (recorded as 0).
func (t *Tape) Chance(perMille int) bool {
	if perMille <= 0 {
		return false
	}
	return t.Biased(2, 1000-perMille) == 1
}

// Range returns a value in [lo, hi] (inclusive); lo is the simple choice.
func (t *Tape) Range(lo, hi int) int {
	if hi <= lo {
		return lo
	}
	return lo + t.Choose(hi-lo+1)
}

// Pick returns one of the given ints; the first is the simple choice.
func (t *Tape) Pick(vals ...int) int {
	return vals[t.Choose(len(vals))]
}

// Bytes draws n bytes, each from a small alphabet so that shrinking stays
// meaningful. alphabet == nil means all 256 values.
func (t *Tape) Bytes(n int, alphabet []byte) []byte {
	b := make([]byte, n)
	for i := range b {
		if alphabet == nil {
			b[i] = byte(t.Choose(256))
		} else {
			b[i] = alphabet[t.Choose(len(alphabet))]
		}
	}
	return b
}

// Perm returns a permutation of 0..n-1; identity is the simple choice.
func (t *Tape) Perm(n int) []int {
	p := make([]int, n)
	for i := range p {
		p[i] = i
	}
	for i := 0; i < n-1; i++ {
		j := i + t.Choose(n-i)
		p[i], p[j] = p[j], p[i]
	}
	return p
}

// Len is the number of recorded choices.
func (t *Tape) Len() int { return len(t.Vals) }

// File is the on-disk replay format.
type File struct {
	Property  string   `json:"property"`
	Scenario  string   `json:"scenario,omitempty"`
	Tier      string   `json:"tier"`
	Seed      uint64   `json:"seed"`
	Run       uint64   `json:"run"`
	Signature string   `json:"signature"`
	Detail    string   `json:"detail,omitempty"`
	EventHash string   `json:"event_hash,omitempty"`
	Minimised bool     `json:"minimised"`
	OrigLen   int      `json:"original_tape_len,omitempty"`
	Tape      []uint32 `json:"tape"`
	Trace     []string `json:"trace_tail,omitempty"`
}

func (f *File) Write(path string) error {
	b, err := json.Marshal(f)
	if err != nil {
		return err
	}
	return ioutil.WriteFile(path, append(b, '\n'), 0644)
}

func ReadFile(path string) (*File, error) {
	b, err := ioutil.ReadFile(path)
	if err != nil {
		return nil, err
	}
	f := &File{}
	if err := json.Unmarshal(b, f); err != nil {
		return nil, fmt.Errorf("replay file %s: %v", path, err)
	}
	return f, nil
}
