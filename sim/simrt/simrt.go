// Package simrt is the simulated runtime: a baton scheduler that decides, from
// a tape, which goroutine ("task") of the system under test runs next. It runs
// inside a testing/synctest bubble, which supplies the fake clock and the
// quiescence detection (synctest.Wait); who proceeds is always decided here.
//
// Instrumented tool code calls the package-level functions (Pre, Post, Go,
// Lock, Select, ...). When no simulation is active, or the calling goroutine
// is not a task, they fall through to the plain operation, so instrumented
// code also works when called directly.
//
// Go 1.14 dialect: this package is copied into the tool's module.
package simrt

import (
	"bytes"
	"context"
	"fmt"
	"hash/fnv"
	"os"
	"runtime"
	"runtime/debug"
	"sort"
	"strconv"
	"sync"
	"sync/atomic"
	"testing"
	"testing/synctest"
	"time"

	"github.com/alibaba/RedisShake/pkg/simrt/tape"
)

type state int

const (
	stReady   state = iota // wants the baton
	stRunning              // holds the baton
	stBlocked              // in a real blocking operation (channel, sleep, WaitGroup)
	stParked               // waiting on a simulator object (mutex, cond, conn, event)
	stDead
)

func (s state) String() string {
	return [...]string{"ready", "running", "blocked", "parked", "dead"}[s]
}

// Task is a goroutine known to the simulator.
type Task struct {
	ID     int
	Proc   *Proc
	Site   string // last scheduling point
	st     state
	wake   chan struct{}
	killed bool
	gid    uint64
	onWhat string // what it is parked on (diagnostics)
	grants int
	timer  *time.Timer
	tmo    bool
}

// Proc is a simulated OS process: a set of tasks that die together.
type Proc struct {
	Name     string
	Dead     bool
	Exited   bool // via simrt.Exit (os.Exit)
	ExitCode int
	Panicked bool   // Go panic escaped a task
	PanicMsg string // message + short stack
	Crashed  bool   // harness-injected crash
	onDeath  []func()
	tasks    []*Task
}

// Config bounds a run.
type Config struct {
	MaxSteps      int           // scheduler grants
	MaxSimTime    time.Duration // simulated time
	StallPerMille int           // probability that the scheduler lets time pass while tasks are ready
	StallMax      time.Duration
	Sticky        int             // per mille probability to keep running the same task when it is ready (generation only)
	LockYield     map[string]bool // package path suffixes for which Lock() is a scheduling point
	IOStall       int             // per mille probability that a file/stream operation of the tool (Read through an io.Reader, bufio Flush/WriteString, os.File Read/Write) is preceded by a simulated stall of 50 ms - 3 s (slow disk, slow pipe)
	Trace         bool
}

// Sim is one simulated execution.
type Sim struct {
	mu        sync.Mutex
	T         *tape.Tape
	Cfg       Config
	tasks     []*Task
	byG       map[uint64]*Task
	procs     []*Proc
	ioStalls  int
	wakeSched chan struct{}
	last      *Task
	Steps     int
	start     time.Time
	stopping  bool
	stopReq   bool
	hash      uint64
	trace     []string
	Log       []string // bounded event log (tail)
	mwait     map[*sync.Mutex][]*Task
	rwwait    map[*sync.RWMutex][]*Task
	cwait     map[*sync.Cond][]*Task
	// results
	EndReason   string
	Leaked      int
	Unbracketed int
	Unmanaged   int
	Stalls      int
	Sites       map[string]int
	lockOrder   uint64
	Probes      map[string]int
	dialer      DialFunc
	elapsed     time.Duration
	Faults      map[string]int
}

var cur atomic.Value // *Sim or (*Sim)(nil)

func current() *Sim {
	v := cur.Load()
	if v == nil {
		return nil
	}
	return v.(*Sim)
}

// Current returns the active simulation or nil.
func Current() *Sim { return current() }

func goid() uint64 {
	var buf [64]byte
	n := runtime.Stack(buf[:], false)
	// "goroutine 123 ["
	b := buf[:n]
	b = b[len("goroutine "):]
	i := bytes.IndexByte(b, ' ')
	id, _ := strconv.ParseUint(string(b[:i]), 10, 64)
	return id
}

func (s *Sim) self() *Task {
	g := goid()
	s.mu.Lock()
	t := s.byG[g]
	s.mu.Unlock()
	return t
}

// Self returns the calling task (nil if the goroutine is not a task).
func (s *Sim) Self() *Task { return s.self() }

func (s *Sim) poke() {
	select {
	case s.wakeSched <- struct{}{}:
	default:
	}
}

func (s *Sim) note(kind string, t *Task, site string) {
	// cheap rolling hash of the decision sequence
	h := s.hash
	h = h*1099511628211 ^ uint64(t.ID+1)
	for i := 0; i < len(site); i++ {
		h = h*1099511628211 ^ uint64(site[i])
	}
	s.hash = h
	if s.Cfg.Trace {
		s.trace = append(s.trace, fmt.Sprintf("%d %s t%d(%s) %s", s.Steps, kind, t.ID, t.Proc.Name, site))
	}
}

// Logf appends to the bounded event log (never draws from the tape, never reads a real clock).
func (s *Sim) Logf(format string, args ...interface{}) {
	line := fmt.Sprintf(format, args...)
	s.mu.Lock()
	h := fnv.New64a()
	h.Write([]byte(line))
	s.hash = s.hash*1099511628211 ^ h.Sum64()
	if s.Cfg.Trace {
		s.trace = append(s.trace, "  | "+line)
	}
	s.Log = append(s.Log, line)
	if len(s.Log) > 400 {
		s.Log = s.Log[len(s.Log)-300:]
	}
	s.mu.Unlock()
}

// Probe counts a rare-branch hit.
func (s *Sim) Probe(name string) {
	s.mu.Lock()
	s.Probes[name]++
	s.mu.Unlock()
}

// Fault counts an injected fault that actually fired.
func (s *Sim) Fault(name string) {
	s.mu.Lock()
	s.Faults[name]++
	s.mu.Unlock()
}

// Hash of all scheduling decisions and logged events so far.
func (s *Sim) Hash() uint64 { return s.hash }

// TraceLines returns the full trace (only with Cfg.Trace).
func (s *Sim) TraceLines() []string { return s.trace }

// Now is simulated time since run start.
func (s *Sim) Now() time.Duration { return time.Since(s.start) }

// ---------------------------------------------------------------------------
// task life cycle

func (s *Sim) newTask(p *Proc) *Task {
	t := &Task{ID: len(s.tasks), Proc: p, wake: make(chan struct{}, 1), st: stReady}
	s.tasks = append(s.tasks, t)
	p.tasks = append(p.tasks, t)
	return t
}

// NewProc registers a simulated process.
func (s *Sim) NewProc(name string) *Proc {
	s.mu.Lock()
	p := &Proc{Name: name}
	s.procs = append(s.procs, p)
	s.mu.Unlock()
	return p
}

// OnDeath registers a callback run (by the dying/killing task, baton held) when p dies.
func (p *Proc) OnDeath(f func()) { p.onDeath = append(p.onDeath, f) }

func (t *Task) waitGrant() {
	<-t.wake
	if t.killed {
		runtime.Goexit()
	}
}

// spawn starts fn as a new task of proc p. The child registers before the
// parent continues, so task ids are in spawn order.
func (s *Sim) spawn(p *Proc, site string, fn func()) *Task {
	s.mu.Lock()
	t := s.newTask(p)
	t.Site = site
	dead := p.Dead
	s.mu.Unlock()
	if dead {
		s.mu.Lock()
		t.st = stDead
		s.mu.Unlock()
		return t
	}
	started := make(chan struct{})
	go func() {
		g := goid()
		s.mu.Lock()
		t.gid = g
		s.byG[g] = t
		s.mu.Unlock()
		close(started)
		defer s.taskExit(t)
		t.waitGrant()
		fn()
	}()
	<-started
	return t
}

func (s *Sim) taskExit(t *Task) {
	r := recover()
	s.mu.Lock()
	t.st = stDead
	delete(s.byG, t.gid)
	p := t.Proc
	s.mu.Unlock()
	if r != nil {
		// a Go panic escaped a task: the real program would crash here.
		msg := fmt.Sprintf("%v", r)
		st := string(debug.Stack())
		if len(st) > 6000 {
			st = st[:6000]
		}
		s.mu.Lock()
		first := !p.Dead
		if first {
			p.Panicked = true
			p.PanicMsg = msg + "\n" + st
		}
		s.mu.Unlock()
		if first {
			s.killProc(p, t)
		}
	}
	s.poke()
}

// GoProc starts fn as the first task of a new incarnation of process p.
func (s *Sim) GoProc(p *Proc, site string, fn func()) *Task {
	return s.spawn(p, site, fn)
}

// Go is the replacement of the go statement in instrumented code.
func Go(site string, fn func()) {
	s := current()
	if s == nil {
		go fn()
		return
	}
	t := s.self()
	if t == nil {
		s.mu.Lock()
		s.Unmanaged++
		s.mu.Unlock()
		go fn()
		return
	}
	if t.killed {
		runtime.Goexit()
	}
	s.spawn(t.Proc, site, fn)
}

// ---------------------------------------------------------------------------
// scheduling points

func (s *Sim) yield(t *Task, site string) {
	if t.killed {
		runtime.Goexit()
	}
	s.mu.Lock()
	if t.st == stBlocked {
		// resumed from a real blocking operation that had no Post()
		s.Unbracketed++
	}
	t.st = stReady
	t.Site = site
	s.mu.Unlock()
	s.poke()
	t.waitGrant()
}

// Pre is a scheduling point before a potentially blocking real operation.
func Pre(site string) {
	s := current()
	if s == nil {
		return
	}
	t := s.self()
	if t == nil {
		return
	}
	s.yield(t, site)
}

// PreIf is Pre for the statements of methods of lock-carrying types: a scheduling point only in runs that enable
// lock-level exploration for the package the site lies in (Config.LockYield).
func PreIf(site string) {
	s := current()
	if s == nil || len(s.Cfg.LockYield) == 0 || !s.lockYield(site) {
		return
	}
	t := s.self()
	if t == nil {
		return
	}
	s.yield(t, site)
}

// Post follows a potentially blocking real operation: if the task lost the
// baton while it was blocked it queues for it again.
func Post() {
	s := current()
	if s == nil {
		return
	}
	t := s.self()
	if t == nil {
		return
	}
	s.post(t)
}

func (s *Sim) post(t *Task) {
	s.mu.Lock()
	if t.st == stRunning && !t.killed {
		s.mu.Unlock()
		return
	}
	if t.killed {
		s.mu.Unlock()
		runtime.Goexit()
	}
	// stBlocked: descheduled while blocked
	t.st = stReady
	s.mu.Unlock()
	s.poke()
	t.waitGrant()
}

// Yield is a scheduling point for harness code.
func (s *Sim) Yield(site string) {
	if t := s.self(); t != nil {
		s.yield(t, site)
	}
}

// park blocks the calling task on a simulator object until Ready(t).
func (s *Sim) park(t *Task, what string) {
	if t.killed {
		runtime.Goexit()
	}
	s.mu.Lock()
	t.st = stParked
	t.onWhat = what
	s.mu.Unlock()
	s.poke()
	t.waitGrant()
}

// makeReady moves a parked task to the ready set. Caller holds s.mu.
func (s *Sim) makeReadyLocked(t *Task) {
	if t.st == stParked {
		t.st = stReady
		t.onWhat = ""
	}
}

// WaitQ is a FIFO of parked tasks, for harness-side objects (connections, events).
type WaitQ struct {
	q []*Task
}

// ParkOn parks the calling task on q until WakeAll/WakeOne, or until the
// timeout (d > 0) elapses in simulated time; reports whether it timed out.
func (s *Sim) ParkOn(q *WaitQ, what string, d time.Duration) (timedOut bool) {
	t := s.self()
	if t == nil {
		panic("simrt: ParkOn from a goroutine that is not a task: " + what)
	}
	if t.killed {
		runtime.Goexit()
	}
	s.mu.Lock()
	q.q = append(q.q, t)
	t.tmo = false
	if d > 0 {
		t.timer = time.AfterFunc(d, func() {
			s.mu.Lock()
			if t.st == stParked {
				t.tmo = true
				for i, x := range q.q {
					if x == t {
						q.q = append(q.q[:i], q.q[i+1:]...)
						break
					}
				}
				s.makeReadyLocked(t)
			}
			s.mu.Unlock()
			s.poke()
		})
	}
	s.mu.Unlock()
	s.park(t, what)
	s.mu.Lock()
	if t.timer != nil {
		t.timer.Stop()
		t.timer = nil
	}
	to := t.tmo
	t.tmo = false
	s.mu.Unlock()
	return to
}

// WakeAll readies every task parked on q. May be called from timer callbacks.
func (s *Sim) WakeAll(q *WaitQ) {
	s.mu.Lock()
	for _, t := range q.q {
		s.makeReadyLocked(t)
	}
	q.q = q.q[:0]
	s.mu.Unlock()
	s.poke()
}

// WakeOne readies the first task parked on q.
func (s *Sim) WakeOne(q *WaitQ) {
	s.mu.Lock()
	if len(q.q) > 0 {
		s.makeReadyLocked(q.q[0])
		q.q = q.q[1:]
	}
	s.mu.Unlock()
	s.poke()
}

// Waiters reports how many tasks are parked on q.
func (s *Sim) Waiters(q *WaitQ) int {
	s.mu.Lock()
	n := len(q.q)
	s.mu.Unlock()
	return n
}

// Sleep is time.Sleep as a scheduling point.
func Sleep(d time.Duration, site string) {
	s := current()
	if s == nil {
		time.Sleep(d)
		return
	}
	t := s.self()
	if t == nil {
		time.Sleep(d)
		return
	}
	s.yield(t, site)
	time.Sleep(d)
	s.post(t)
}

// SleepSim is Sleep for harness code.
func (s *Sim) Sleep(d time.Duration) { Sleep(d, "harness.sleep") }

// WGWait is (*sync.WaitGroup).Wait as a scheduling point.
func WGWait(wg *sync.WaitGroup, site string) {
	s := current()
	if s == nil {
		wg.Wait()
		return
	}
	t := s.self()
	if t == nil {
		wg.Wait()
		return
	}
	s.yield(t, site)
	wg.Wait()
	s.post(t)
}

// Acquirer is satisfied by *semaphore.Weighted.
type Acquirer interface {
	Acquire(ctx context.Context, n int64) error
}

// SemAcquire is (*semaphore.Weighted).Acquire as a scheduling point.
func SemAcquire(sem Acquirer, ctx context.Context, n int64, site string) error {
	s := current()
	if s == nil {
		return sem.Acquire(ctx, n)
	}
	t := s.self()
	if t == nil {
		return sem.Acquire(ctx, n)
	}
	s.yield(t, site)
	err := sem.Acquire(ctx, n)
	s.post(t)
	return err
}

// BlockForever replaces `select {}`.
func BlockForever(site string) {
	s := current()
	if s == nil {
		select {}
	}
	t := s.self()
	if t == nil {
		select {}
	}
	var q WaitQ
	for {
		s.ParkOn(&q, "forever:"+site, 0)
	}
}

// Select replaces a select statement. try(i) attempts case i without
// blocking; block() performs the real blocking select over all cases and
// returns the index of the one that fired. Returns -1 for default.
func Select(site string, n int, hasDefault bool, try func(int) bool, block func() int) int {
	if hasDefault && n <= 1 {
		// a poll of one channel: no choice to make, never blocks, no scheduling point
		// (keeps hot polling loops such as the QoS token bucket cheap)
		if n == 1 && try(0) {
			return 0
		}
		return -1
	}
	s := current()
	var t *Task
	if s != nil {
		t = s.self()
	}
	if t == nil {
		for i := 0; i < n; i++ {
			if try(i) {
				return i
			}
		}
		if hasDefault {
			return -1
		}
		return block()
	}
	if !hasDefault {
		// a select with a default clause never blocks: no scheduling point is needed in front of it
		// (hot polling loops such as the QoS token bucket would otherwise cost one scheduler step per iteration)
		s.yield(t, site)
	}
	if n == 1 {
		if try(0) {
			return 0
		}
	} else if n > 1 {
		// tape-chosen rotation and direction: every case can be first
		s.mu.Lock()
		first := s.T.Choose(n)
		s.mu.Unlock()
		for k := 0; k < n; k++ {
			i := (first + k) % n
			if try(i) {
				return i
			}
		}
	}
	if hasDefault {
		return -1
	}
	i := block()
	s.post(t)
	return i
}

// ---------------------------------------------------------------------------
// mutexes and condition variables

func (s *Sim) lockYield(site string) bool {
	if len(s.Cfg.LockYield) == 0 {
		return false
	}
	// site = "pkg/path/file.go:line"
	for k := range s.Cfg.LockYield {
		if len(site) >= len(k) && site[:len(k)] == k {
			return true
		}
	}
	return false
}

func (s *Sim) noteLock(t *Task, site string) {
	s.mu.Lock()
	h := s.lockOrder
	h = h*1099511628211 ^ uint64(t.ID+1)
	for i := 0; i < len(site); i++ {
		h = h*1099511628211 ^ uint64(site[i])
	}
	s.lockOrder = h
	s.mu.Unlock()
}

// LockOrderHash identifies the order in which tasks acquired tool mutexes.
func (s *Sim) LockOrderHash() uint64 { return s.lockOrder }

func Lock(m *sync.Mutex, site string) {
	s := current()
	var t *Task
	if s != nil {
		t = s.self()
	}
	if t == nil {
		m.Lock()
		return
	}
	if t.killed {
		if !m.TryLock() {
			runtime.Goexit()
		}
		return
	}
	if s.lockYield(site) {
		s.yield(t, site)
	}
	for !m.TryLock() {
		s.mu.Lock()
		s.mwait[m] = append(s.mwait[m], t)
		s.mu.Unlock()
		s.park(t, "mutex@"+site)
	}
	s.noteLock(t, site)
}

func Unlock(m *sync.Mutex) {
	s := current()
	if s == nil {
		m.Unlock()
		return
	}
	if t := s.self(); t != nil && t.killed {
		// a reaped task unwinding through deferred unlocks: it may have been
		// parked in CondWait (mutex released) — never unlock an unlocked mutex
		if m.TryLock() {
			m.Unlock()
			return
		}
	} else if t != nil {
		// Unlocking an unlocked mutex is a fatal error of the Go runtime: the real process dies on the spot (no deferred
		// functions, no recover). In the simulation only the simulated process may die, never the worker: turn it into a
		// panic of this task, which ends the simulated process like any escaped Go panic. (Exactly one task runs at a
		// time, so the TryLock probe cannot collide with another owner.)
		if m.TryLock() {
			m.Unlock()
			panic("fatal error: sync: unlock of unlocked mutex")
		}
	}
	m.Unlock()
	s.mu.Lock()
	if w := s.mwait[m]; len(w) > 0 {
		for _, t := range w {
			s.makeReadyLocked(t)
		}
		delete(s.mwait, m)
	}
	s.mu.Unlock()
}

func RWLock(m *sync.RWMutex, site string) {
	s := current()
	var t *Task
	if s != nil {
		t = s.self()
	}
	if t == nil {
		m.Lock()
		return
	}
	if t.killed {
		if !m.TryLock() {
			runtime.Goexit()
		}
		return
	}
	if s.lockYield(site) {
		s.yield(t, site)
	}
	for !m.TryLock() {
		s.mu.Lock()
		s.rwwait[m] = append(s.rwwait[m], t)
		s.mu.Unlock()
		s.park(t, "rwmutex@"+site)
	}
}

func RWRLock(m *sync.RWMutex, site string) {
	s := current()
	var t *Task
	if s != nil {
		t = s.self()
	}
	if t == nil {
		m.RLock()
		return
	}
	if t.killed {
		if !m.TryRLock() {
			runtime.Goexit()
		}
		return
	}
	if s.lockYield(site) {
		s.yield(t, site)
	}
	for !m.TryRLock() {
		s.mu.Lock()
		s.rwwait[m] = append(s.rwwait[m], t)
		s.mu.Unlock()
		s.park(t, "rwmutex.r@"+site)
	}
}

func (s *Sim) rwWake(m *sync.RWMutex) {
	s.mu.Lock()
	if w := s.rwwait[m]; len(w) > 0 {
		for _, t := range w {
			s.makeReadyLocked(t)
		}
		delete(s.rwwait, m)
	}
	s.mu.Unlock()
}

func RWUnlock(m *sync.RWMutex) {
	s := current()
	if s != nil {
		if t := s.self(); t != nil && t.killed {
			if m.TryLock() {
				m.Unlock()
				return
			}
		}
	}
	m.Unlock()
	if s != nil {
		s.rwWake(m)
	}
}

func RWRUnlock(m *sync.RWMutex) {
	m.RUnlock()
	if s := current(); s != nil {
		s.rwWake(m)
	}
}

func lockerLock(l sync.Locker, site string) {
	switch m := l.(type) {
	case *sync.Mutex:
		Lock(m, site)
	case *sync.RWMutex:
		RWLock(m, site)
	default:
		l.Lock()
	}
}

func lockerUnlock(l sync.Locker) {
	switch m := l.(type) {
	case *sync.Mutex:
		Unlock(m)
	case *sync.RWMutex:
		RWUnlock(m)
	default:
		l.Unlock()
	}
}

// CondWait replaces (*sync.Cond).Wait: FIFO waiter list owned by the simulator.
func CondWait(c *sync.Cond, site string) {
	s := current()
	var t *Task
	if s != nil {
		t = s.self()
	}
	if t == nil {
		c.Wait()
		return
	}
	if t.killed {
		runtime.Goexit()
	}
	s.mu.Lock()
	s.cwait[c] = append(s.cwait[c], t)
	s.mu.Unlock()
	lockerUnlock(c.L)
	s.park(t, "cond@"+site)
	lockerLock(c.L, site)
}

func CondSignal(c *sync.Cond) {
	s := current()
	if s == nil {
		c.Signal()
		return
	}
	s.mu.Lock()
	if w := s.cwait[c]; len(w) > 0 {
		s.makeReadyLocked(w[0])
		if len(w) == 1 {
			delete(s.cwait, c)
		} else {
			s.cwait[c] = w[1:]
		}
	}
	s.mu.Unlock()
	c.Signal() // waiters that entered outside the simulation
}

func CondBroadcast(c *sync.Cond) {
	s := current()
	if s == nil {
		c.Broadcast()
		return
	}
	s.mu.Lock()
	for _, t := range s.cwait[c] {
		s.makeReadyLocked(t)
	}
	delete(s.cwait, c)
	s.mu.Unlock()
	c.Broadcast()
}

// CondWaiters reports how many tasks are parked in CondWait on c (oracle helper).
func (s *Sim) CondWaiters(c *sync.Cond) int {
	s.mu.Lock()
	n := len(s.cwait[c])
	s.mu.Unlock()
	return n
}

// ---------------------------------------------------------------------------
// map iteration order

// MapOrder returns a tape-chosen permutation of 0..n-1 (identity outside a simulation).
func MapOrder(n int) []int {
	p := make([]int, n)
	for i := range p {
		p[i] = i
	}
	s := current()
	if s == nil || n < 2 {
		return p
	}
	s.mu.Lock()
	for i := 0; i < n-1; i++ {
		j := i + s.T.Choose(n-i)
		p[i], p[j] = p[j], p[i]
	}
	s.mu.Unlock()
	return p
}

// SortStrings / SortInts give instrumented map ranges a canonical base order.
func SortStrings(a []string) { sort.Strings(a) }
func SortInts(a []int)       { sort.Ints(a) }
func SortInt64s(a []int64) {
	sort.Slice(a, func(i, j int) bool { return a[i] < a[j] })
}
func SortInt32s(a []int32) {
	sort.Slice(a, func(i, j int) bool { return a[i] < a[j] })
}

// ---------------------------------------------------------------------------
// process exit, crash

// Exit replaces os.Exit in instrumented code.
func Exit(code int) {
	s := current()
	var t *Task
	if s != nil {
		t = s.self()
	}
	if t == nil {
		if s != nil {
			// os.Exit from a goroutine the simulator does not know: cannot emulate.
			panic(fmt.Sprintf("simrt: os.Exit(%d) from unmanaged goroutine", code))
		}
		os.Exit(code)
	}
	p := t.Proc
	s.mu.Lock()
	first := !p.Dead
	if first {
		p.Exited = true
		p.ExitCode = code
	}
	s.mu.Unlock()
	if first {
		s.killProc(p, t)
	}
	runtime.Goexit()
}

// killProc marks p dead, runs its death callbacks and flags all its tasks.
// Called by the task that holds the baton (or by a dying task).
func (s *Sim) killProc(p *Proc, by *Task) {
	s.mu.Lock()
	if p.Dead {
		s.mu.Unlock()
		return
	}
	p.Dead = true
	cbs := p.onDeath
	p.onDeath = nil
	for _, t := range p.tasks {
		if t.st != stDead {
			t.killed = true
		}
	}
	s.mu.Unlock()
	for _, f := range cbs {
		f()
	}
	s.poke()
}

// Crash kills process p from the harness (power-cut style).
func (s *Sim) Crash(p *Proc) {
	s.mu.Lock()
	if !p.Dead {
		p.Crashed = true
	}
	s.mu.Unlock()
	s.killProc(p, nil)
}

// Alive reports whether the process has not died.
func (s *Sim) Alive(p *Proc) bool {
	s.mu.Lock()
	d := p.Dead
	s.mu.Unlock()
	return !d
}

// LiveTasks counts tasks of p that have not finished.
func (s *Sim) LiveTasks(p *Proc) int {
	s.mu.Lock()
	n := 0
	for _, t := range p.tasks {
		if t.st != stDead {
			n++
		}
	}
	s.mu.Unlock()
	return n
}

// TaskStates describes every live task (diagnostics, deadlock reports).
func (s *Sim) TaskStates() []string {
	s.mu.Lock()
	var out []string
	for _, t := range s.tasks {
		if t.st == stDead {
			continue
		}
		out = append(out, fmt.Sprintf("t%d(%s) %s site=%s on=%s", t.ID, t.Proc.Name, t.st, t.Site, t.onWhat))
	}
	s.mu.Unlock()
	return out
}

// ParkedOn returns the descriptions of what live tasks of p are parked on.
func (s *Sim) ParkedOn(p *Proc) []string {
	s.mu.Lock()
	var out []string
	for _, t := range p.tasks {
		if t.st == stParked {
			out = append(out, t.onWhat)
		}
	}
	s.mu.Unlock()
	return out
}

// Stop asks the scheduler to end the run.
func (s *Sim) Stop() {
	s.mu.Lock()
	s.stopReq = true
	s.mu.Unlock()
	s.poke()
}

// ---------------------------------------------------------------------------
// the scheduler

// Run executes root as task 0 of process "harness" inside a synctest bubble
// and returns when root has called Stop (or returned), or a cap was hit.
func Run(tt *testing.T, tp *tape.Tape, cfg Config, root func(s *Sim)) (s *Sim) {
	if cfg.MaxSteps == 0 {
		cfg.MaxSteps = 200000
	}
	if cfg.MaxSimTime == 0 {
		cfg.MaxSimTime = time.Hour
	}
	if cfg.StallMax == 0 {
		cfg.StallMax = 2 * time.Second
	}
	s = &Sim{
		T: tp, Cfg: cfg,
		byG:       map[uint64]*Task{},
		wakeSched: make(chan struct{}, 1),
		mwait:     map[*sync.Mutex][]*Task{},
		rwwait:    map[*sync.RWMutex][]*Task{},
		cwait:     map[*sync.Cond][]*Task{},
		Sites:     map[string]int{},
		Probes:    map[string]int{},
		Faults:    map[string]int{},
		hash:      14695981039346656037,
		lockOrder: 14695981039346656037,
	}
	func() {
		defer func() {
			if r := recover(); r != nil {
				msg := fmt.Sprint(r)
				if len(msg) >= 8 && msg[:8] == "deadlock" {
					// goroutines stuck in real operations nobody will complete are left behind
					return
				}
				panic(r)
			}
		}()
		synctest.Test(tt, func(*testing.T) {
			cur.Store(s)
			defer cur.Store((*Sim)(nil))
			s.wakeSched = make(chan struct{}, 1)
			s.start = time.Now()
			s.loop(root)
		})
	}()
	cur.Store((*Sim)(nil))
	return s
}

func (s *Sim) loop(root func(*Sim)) {
	hp := s.NewProc("harness")
	rootTask := s.spawn(hp, "root", func() {
		root(s)
		s.Stop()
	})
	_ = rootTask
	horizon := time.NewTimer(s.Cfg.MaxSimTime)
	defer horizon.Stop()
	for {
		synctest.Wait()
		s.mu.Lock()
		// a task that still "holds" the baton at quiescence is blocked in a real operation
		for _, t := range s.tasks {
			if t.st == stRunning {
				t.st = stBlocked
			}
		}
		if s.stopReq {
			s.EndReason = "stop"
			s.mu.Unlock()
			break
		}
		if s.Steps >= s.Cfg.MaxSteps {
			s.EndReason = "max_steps"
			s.mu.Unlock()
			break
		}
		// killed tasks are reaped first, in id order
		var reap *Task
		var ready []*Task
		for _, t := range s.tasks {
			if t.st == stReady || t.st == stParked {
				if t.killed {
					if reap == nil {
						reap = t
					}
					continue
				}
			}
			if t.st == stReady {
				ready = append(ready, t)
			}
		}
		if reap != nil {
			reap.st = stRunning
			s.mu.Unlock()
			reap.wake <- struct{}{}
			continue
		}
		if len(ready) == 0 {
			s.mu.Unlock()
			// let simulated time pass until something becomes ready
			select {
			case <-s.wakeSched:
			case <-horizon.C:
				s.mu.Lock()
				s.EndReason = "max_sim_time"
				s.mu.Unlock()
				goto done
			}
			continue
		}
		// stalled-task fault: a ready task is not run while time passes
		if s.Cfg.StallPerMille > 0 && s.T.Chance(s.Cfg.StallPerMille) {
			d := time.Duration(1+s.T.Choose(2000)) * s.Cfg.StallMax / 2000
			s.Stalls++
			s.Faults["sched_stall"]++
			s.mu.Unlock()
			select {
			case <-time.After(d):
			case <-horizon.C:
				s.mu.Lock()
				s.EndReason = "max_sim_time"
				s.mu.Unlock()
				goto done
			}
			continue
		}
		// order: the task that ran last (if ready) first, then by id
		if s.last != nil && s.last.st == stReady {
			for i, t := range ready {
				if t == s.last {
					copy(ready[1:i+1], ready[:i])
					ready[0] = s.last
					break
				}
			}
		}
		var k int
		if len(ready) > 1 {
			if s.Cfg.Sticky > 0 {
				k = s.T.Biased(len(ready), s.Cfg.Sticky)
			} else {
				k = s.T.Choose(len(ready))
			}
		}
		t := ready[k]
		t.st = stRunning
		t.grants++
		s.last = t
		s.Steps++
		s.Sites[t.Site]++
		s.note("run", t, t.Site)
		s.mu.Unlock()
		// drain a stale poke so that the idle wait below blocks properly
		select {
		case <-s.wakeSched:
		default:
		}
		t.wake <- struct{}{}
	}
done:
	s.elapsed = time.Since(s.start)
	// tear down: reap everything that can be reaped
	s.mu.Lock()
	s.stopping = true
	for _, p := range s.procs {
		p.Dead = true
	}
	for _, t := range s.tasks {
		if t.st != stDead {
			t.killed = true
		}
	}
	s.mu.Unlock()
	drains := 0
	for round := 0; round < 1000000; round++ {
		synctest.Wait()
		s.mu.Lock()
		var reap *Task
		for _, t := range s.tasks {
			if t.st == stRunning {
				t.st = stBlocked
			}
			if (t.st == stReady || t.st == stParked) && reap == nil {
				reap = t
			}
		}
		if reap == nil {
			n := 0
			for _, t := range s.tasks {
				if t.st != stDead {
					n++
				}
			}
			s.Leaked = n
			s.mu.Unlock()
			if n > 0 && drains < 4 {
				// tasks blocked in timed operations (sleep, ticker) die at their next wake-up
				drains++
				time.Sleep(time.Hour)
				continue
			}
			break
		}
		reap.st = stRunning
		s.mu.Unlock()
		reap.wake <- struct{}{}
	}
}

// Now0 is the simulated duration of the finished run.
func (s *Sim) Now0() time.Duration { return s.elapsed }
