// Package core is the glue between properties (scenario + oracle), the worker
// process and the driver: run context, violation signatures, registry, shrinker.
package core

import (
	"fmt"
	"os"
	"sort"
	"testing"
	"time"

	"github.com/alibaba/RedisShake/pkg/simrt"
	"github.com/alibaba/RedisShake/pkg/simrt/tape"
)

// Violation is an oracle verdict. Signature() identifies the violation class:
// it must be stable across seeds and specific enough that a different defect
// of the same property gets a different signature.
type Violation struct {
	Clause string // which clause of the property's oracle failed
	Site   string // input class / call site / history shape
	Detail string // human-readable specifics (not part of the signature)
}

func (v *Violation) Signature() string {
	if v == nil {
		return ""
	}
	return v.Clause + "|" + v.Site
}

func Violate(clause, site, format string, args ...interface{}) *Violation {
	return &Violation{Clause: clause, Site: site, Detail: fmt.Sprintf(format, args...)}
}

// Ctx is handed to a property for one run.
type Ctx struct {
	T      *tape.Tape
	TT     *testing.T
	Tier   string // quick | thorough
	TmpDir string
	Trace  bool
	Debug  string // directory for debugging artefacts (VSIM_DEBUG), empty = off

	// filled by the property
	Probes     map[string]int
	Faults     map[string]int
	Sample     interface{} // the case written out for evidence
	Key        uint64      // identity of the explored case (schedule hash / input hash)
	Nontrivial bool
	SimTime    time.Duration
	Steps      int
	Log        []string // tail of the event log, attached to replay files
	Sub        string   // sub-scenario name (evidence breakdown)
	Extra      map[string]int // additional counters (summed)
}

func (c *Ctx) Thorough() bool { return c.Tier == "thorough" }

func (c *Ctx) Probe(name string) { c.Probes[name]++ }
func (c *Ctx) Fault(name string) { c.Faults[name]++ }
func (c *Ctx) Count(name string, n int) {
	if c.Extra == nil {
		c.Extra = map[string]int{}
	}
	c.Extra[name] += n
}

// Absorb copies the bookkeeping of a finished simulation into the context.
func (c *Ctx) Absorb(s *simrt.Sim) {
	for k, v := range s.Probes {
		c.Probes[k] += v
	}
	for k, v := range s.Faults {
		c.Faults[k] += v
	}
	c.SimTime += s.Now0()
	c.Steps += s.Steps
	c.Key = c.Key*1099511628211 ^ s.Hash()
	c.Log = s.Log
	c.Count("leaked_tasks", s.Leaked)
	c.Count("unbracketed_resumes", s.Unbracketed)
	c.Count("unmanaged_go", s.Unmanaged)
}

// Prop is one property's check.
type Prop struct {
	ID       string
	Run      func(c *Ctx) *Violation
	// QuickRuns / ThoroughRuns: default number of runs per tier (thorough is also time-boxed by the driver)
	QuickRuns    int
	PerProcess   int // runs per worker process before it is recycled
	Rule         string
	Level        string
	Assumptions  []string
	RealVsStub   string
	ProbeNames   []string // probes that ought to be non-zero
	FaultNames   []string
}

var registry = map[string]*Prop{}

func Register(p *Prop) {
	if p.Level == "" {
		p.Level = "exploration"
	}
	if p.PerProcess == 0 {
		p.PerProcess = 200
	}
	registry[p.ID] = p
}

func Lookup(id string) *Prop { return registry[id] }

func IDs() []string {
	var ids []string
	for k := range registry {
		ids = append(ids, k)
	}
	sort.Strings(ids)
	return ids
}

// Exec runs prop once on the given tape and returns the violation (or nil).
func Exec(tt *testing.T, p *Prop, tp *tape.Tape, tier string, trace bool) (*Ctx, *Violation) {
	dir, err := os.MkdirTemp("", "vsim-run-")
	if err != nil {
		panic(err)
	}
	defer os.RemoveAll(dir)
	c := &Ctx{T: tp, TT: tt, Tier: tier, TmpDir: dir, Trace: trace, Debug: os.Getenv("VSIM_DEBUG"), Probes: map[string]int{}, Faults: map[string]int{}}
	v := p.Run(c)
	return c, v
}

// Shrink minimises vals while the same signature persists.
func Shrink(tt *testing.T, p *Prop, vals []uint32, tier, sig string, maxExec int, deadline time.Time) ([]uint32, int) {
	execs := 0
	try := func(cand []uint32) ([]uint32, bool) {
		if execs >= maxExec || time.Now().After(deadline) {
			return nil, false
		}
		execs++
		tp := tape.Replay(cand)
		_, v := Exec(tt, p, tp, tier, false)
		if v.Signature() == sig {
			used := tp.Vals
			// drop trailing zeros: replay answers 0 past the end anyway
			n := len(used)
			for n > 0 && used[n-1] == 0 {
				n--
			}
			return append([]uint32(nil), used[:n]...), true
		}
		return nil, false
	}
	cur, ok := try(vals)
	if !ok {
		return vals, execs
	}
	// 1. truncation (binary search on prefix length)
	lo, hi := 0, len(cur)
	for lo < hi {
		mid := (lo + hi) / 2
		if c, ok := try(cur[:mid]); ok {
			cur = c
			hi = len(cur)
			if mid < hi {
				hi = mid
			}
		} else {
			lo = mid + 1
		}
		if execs >= maxExec {
			break
		}
	}
	// 2. block zeroing / deletion
	for bs := len(cur) / 2; bs >= 1; bs /= 2 {
		for i := 0; i+bs <= len(cur); {
			allZero := true
			for _, x := range cur[i : i+bs] {
				if x != 0 {
					allZero = false
					break
				}
			}
			progressed := false
			if !allZero {
				cand := append([]uint32(nil), cur...)
				for j := i; j < i+bs; j++ {
					cand[j] = 0
				}
				if c, ok := try(cand); ok {
					cur = c
					progressed = true
				}
			}
			if !progressed {
				// deletion of the block
				cand := append(append([]uint32(nil), cur[:i]...), cur[i+bs:]...)
				if c, ok := try(cand); ok && len(c) < len(cur) {
					cur = c
					progressed = true
				}
			}
			if !progressed {
				i += bs
			}
			if execs >= maxExec || time.Now().After(deadline) {
				return cur, execs
			}
		}
	}
	// 3. single-value reduction
	for i := 0; i < len(cur); i++ {
		for cur[i] > 0 {
			cand := append([]uint32(nil), cur...)
			cand[i] = cur[i] / 2
			if c, ok := try(cand); ok {
				cur = c
				if i >= len(cur) {
					break
				}
				continue
			}
			cand[i] = cur[i] - 1
			if c, ok := try(cand); ok {
				cur = c
				if i >= len(cur) {
					break
				}
				continue
			}
			break
		}
		if execs >= maxExec || time.Now().After(deadline) {
			break
		}
	}
	return cur, execs
}
