// Package env prepares the tool's process-global state for one simulated run
// (log capture, configuration defaults) the way main/SanitizeOptions would.
package env

import (
	"bytes"
	"strings"
	"sync"

	"github.com/alibaba/RedisShake/pkg/libs/log"
	"github.com/alibaba/RedisShake/redis-shake/base"
	utils "github.com/alibaba/RedisShake/redis-shake/common"
	conf "github.com/alibaba/RedisShake/redis-shake/configure"
	"github.com/alibaba/RedisShake/redis-shake/metric"
)

// LogCapture collects everything the tool logs during a run.
type LogCapture struct {
	mu  sync.Mutex
	buf bytes.Buffer
	max int
}

func (l *LogCapture) Write(p []byte) (int, error) {
	l.mu.Lock()
	if l.max == 0 || l.buf.Len() < l.max {
		l.buf.Write(p)
	}
	l.mu.Unlock()
	return len(p), nil
}

func (l *LogCapture) String() string {
	l.mu.Lock()
	defer l.mu.Unlock()
	return l.buf.String()
}

func (l *LogCapture) Bytes() []byte {
	l.mu.Lock()
	defer l.mu.Unlock()
	return append([]byte(nil), l.buf.Bytes()...)
}

// Tail returns the last n lines.
func (l *LogCapture) Tail(n int) []string {
	lines := strings.Split(strings.TrimRight(l.String(), "\n"), "\n")
	if len(lines) > n {
		lines = lines[len(lines)-n:]
	}
	return lines
}

// PanicLines returns the log lines carrying a [PANIC] tag.
func (l *LogCapture) PanicLines() []string {
	var out []string
	for _, ln := range strings.Split(l.String(), "\n") {
		if strings.Contains(ln, "[PANIC]") {
			out = append(out, ln)
		}
	}
	return out
}

// CaptureLog redirects the tool's global logger into a fresh capture.
// level: "all" | "debug" | "info" | "warn" | "error" | "none"
func CaptureLog(level string, maxBytes int) *LogCapture {
	lc := &LogCapture{max: maxBytes}
	lg := log.New(lc, "")
	switch level {
	case "none":
		lg.SetLevel(log.LEVEL_NONE)
	case "error":
		lg.SetLevel(log.LEVEL_ERROR)
	case "warn":
		lg.SetLevel(log.LEVEL_WARN)
	case "info":
		lg.SetLevel(log.LEVEL_INFO)
	case "debug", "all", "":
		lg.SetLevel(log.LEVEL_DEBUG)
	}
	lg.SetFlags(0)
	log.StdLog = lg
	return lc
}

// LastPanic returns the last [PANIC] line together with its "[error]:" line.
func (l *LogCapture) LastPanic() string {
	lines := strings.Split(l.String(), "\n")
	out := ""
	for i, ln := range lines {
		if strings.Contains(ln, "[PANIC]") {
			out = strings.TrimSpace(ln)
			for j := i + 1; j < len(lines) && j < i+4; j++ {
				if strings.HasPrefix(lines[j], "[error]:") {
					out += " " + strings.TrimSpace(lines[j])
				}
			}
		}
	}
	if out == "" {
		t := l.Tail(3)
		return strings.Join(t, " / ")
	}
	if len(out) > 600 {
		out = out[:600]
	}
	return out
}

// ErrClass reduces a panic line to a stable class: the text after "[error]:"
// (or the whole line), with digits and quoted strings removed, clipped.
func ErrClass(line string) string {
	if i := strings.Index(line, "[error]:"); i >= 0 {
		line = line[i+8:]
	} else if i := strings.Index(line, "[PANIC]"); i >= 0 {
		line = line[i+7:]
	}
	if i := strings.IndexByte(line, '"'); i >= 0 {
		line = line[:i]
	}
	var b strings.Builder
	for _, r := range line {
		if r >= '0' && r <= '9' {
			continue
		}
		b.WriteRune(r)
	}
	out := strings.Join(strings.Fields(b.String()), " ")
	if len(out) > 60 {
		out = out[:60]
	}
	return out
}

// DefaultOptions resets the tool's global configuration to what SanitizeOptions
// leaves for an all-default configuration file of the given mode.
func DefaultOptions(mode string) {
	// process-global state of the tool that would otherwise leak from one simulated run into the next
	metric.MetricMap = new(sync.Map)
	base.Status = "null"
	utils.TargetRoundRobin = 0
	conf.Options = conf.Configuration{
		Id:                     "redis-shake-default",
		LogLevel:               "info",
		Parallel:               64,
		SourceType:             "standalone",
		SourceAuthType:         "auth",
		TargetAuthType:         "auth",
		TargetType:             "standalone",
		KeyExists:              "none",
		BigKeyThreshold:        50 * 1024 * 1024,
		Metric:                 true,
		SenderSize:             65535,
		SenderCount:            1024,
		SenderDelayChannelSize: 32,
		ScanKeyNumber:          100,
		Qps:                    500000,
		TargetDB:               -1,
		Type:                   mode,
		HeartbeatIp:            "127.0.0.1",
		Psync:                  true,
		SourceRdbParallel:      1,
		NCpu:                   1,
	}
}

// DefaultOptionsKeepConf resets only the tool's process-global state (a restart with the same configuration).
func DefaultOptionsKeepConf() {
	metric.MetricMap = new(sync.Map)
	base.Status = "null"
	utils.TargetRoundRobin = 0
}
