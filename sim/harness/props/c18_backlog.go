package props

import (
	"bytes"
	"fmt"
	"os"
	"path/filepath"
	"time"

	"github.com/alibaba/RedisShake/pkg/libs/errors"
	"github.com/alibaba/RedisShake/pkg/libs/io/backlog"
	"github.com/alibaba/RedisShake/pkg/simrt"

	"verifsim/core"
)

// C18 — the backlog ring returns the bytes written at an offset, or says they are gone.
//
// One writer task, 1-3 reader tasks and a closer run tape-drawn scripts against
// backlog.NewSize / NewFileBacklog with lock-level scheduling points. Reference
// model: an absolute log whose byte i is a function of i, with the window
// [max(0,w-cap), w]; because the writer's progress inside one Write call is not
// observable, every verdict is stated over the interval of write positions the
// operation may have been linearised at.

var errBacklogCustom = fmt.Errorf("backlog-custom-close-error")

func runC18(c *core.Ctx) *core.Violation {
	if c.T.Choose(6) == 5 {
		return runC18Writers(c)
	}
	return runC18Single(c)
}

// runC18Writers: several goroutines write at once. "A read at offset o returns exactly the bytes that were written at o
// onward" then means that every Write lands as one contiguous run of bytes. Each Write is a self-describing record
// (magic, writer, sequence number, length, position-independent payload); at the end the retained window must parse as
// a chain of whole records ending exactly at the write position, each writer's sequence numbers increasing.
func runC18Writers(c *core.Ctx) *core.Violation {
	t := c.T
	c.Sub = "several-writers"
	backend := "mem"
	capacity := 4096 * (1 + t.Choose(3))
	if t.Choose(8) == 7 {
		backend = "file"
		capacity = backlog.FileSizeAlign
	}
	nWriters := 2 + t.Choose(2)
	type rec struct{ w, seq, n int }
	plans := make([][]int, nWriters)
	total := 0
	maxRec := 0
	for w := range plans {
		k := 2 + t.Choose(8)
		for i := 0; i < k; i++ {
			var n int
			switch t.Choose(4) {
			case 0:
				n = 9 + t.Choose(30) // small
			case 1:
				n = capacity/2 - t.Choose(64)
			case 2:
				n = capacity/4 + t.Choose(capacity/4)
			default:
				n = 9 + t.Choose(capacity/2-9)
			}
			plans[w] = append(plans[w], n)
			total += n
			if n > maxRec {
				maxRec = n
			}
		}
	}
	mk := func(w, seq, n int) []byte {
		b := make([]byte, n)
		b[0], b[1], b[2] = 0xC1, 0x8E, byte(w)
		b[3], b[4] = byte(seq>>8), byte(seq)
		b[5], b[6], b[7], b[8] = byte(n>>24), byte(n>>16), byte(n>>8), byte(n)
		for i := 9; i < n; i++ {
			b[i] = byte(i*7 + w*31 + seq*13)
		}
		return b
	}
	c.Sample = map[string]interface{}{"sub": "several-writers", "backend": backend, "capacity": capacity, "writers": nWriters, "total": total}
	c.Key = hashBytes([]byte(fmt.Sprint("writers", backend, capacity, plans)))
	cfg := simrt.Config{MaxSteps: 600000, MaxSimTime: 10 * time.Hour, LockYield: map[string]bool{"pkg/libs/io/backlog/": true}, Trace: c.Trace}
	if t.Chance(500) {
		cfg.Sticky = 600 + t.Choose(350)
	}
	var viol *core.Violation
	s := simrt.Run(c.TT, t, cfg, func(s *simrt.Sim) {
		var bl *backlog.Backlog
		if backend == "mem" {
			bl = backlog.NewSize(capacity)
		} else {
			f, err := os.OpenFile(filepath.Join(c.TmpDir, "backlog.bin"), os.O_CREATE|os.O_RDWR|os.O_TRUNC, 0600)
			if err != nil {
				panic(err)
			}
			defer f.Close()
			bl = backlog.NewFileBacklog(capacity, f)
		}
		p := s.NewProc("backlog-writers")
		finished := 0
		for w := range plans {
			w := w
			s.GoProc(p, fmt.Sprintf("writer-%d", w), func() {
				defer func() { finished++ }()
				for seq, n := range plans[w] {
					b := mk(w, seq, n)
					got, err := bl.Write(b)
					for i := range b {
						b[i] = 0xEE // the buffer is the caller's again
					}
					if err != nil || got != n {
						if viol == nil {
							viol = core.Violate("write-result", "several-writers", "Write(%d) by writer %d returned (%d, %v)", n, w, got, err)
						}
						return
					}
				}
			})
		}
		for i := 0; i < 200 && finished < nWriters && s.Alive(p); i++ {
			s.Sleep(100 * time.Millisecond)
		}
		if viol != nil {
			return
		}
		if p.Panicked {
			viol = core.Violate("go-panic", "several-writers", "Go panic: %s", firstLines(p.PanicMsg, 6))
			return
		}
		if finished < nWriters {
			viol = core.Violate("deadlock", "several-writers", "writers did not finish: %v", s.TaskStates())
			return
		}
		rp, wp, err := bl.DataRange()
		if err != nil || wp != uint64(total) {
			viol = core.Violate("data-range", "several-writers", "DataRange()=(%d,%d,%v) after %d bytes were written by %d writers", rp, wp, err, total, nWriters)
			return
		}
		win := make([]byte, wp-rp)
		for got := 0; got < len(win); {
			n, err := bl.ReadAt(win[got:], rp+uint64(got))
			if err != nil || n == 0 {
				viol = core.Violate("read-window", "several-writers", "ReadAt(%d) inside the data range [%d,%d) returned (%d, %v)", rp+uint64(got), rp, wp, n, err)
				return
			}
			got += n
		}
		// the window starts somewhere inside (or at the start of) a record: find the first boundary from which whole,
		// intact records chain up to the write position
		parse := func(from int) (bool, string) {
			lastSeq := map[int]int{}
			i := from
			for i < len(win) {
				if len(win)-i < 9 || win[i] != 0xC1 || win[i+1] != 0x8E {
					return false, fmt.Sprintf("no record header at window offset %d", i)
				}
				w, seq := int(win[i+2]), int(win[i+3])<<8|int(win[i+4])
				n := int(win[i+5])<<24 | int(win[i+6])<<16 | int(win[i+7])<<8 | int(win[i+8])
				if w >= nWriters || seq >= len(plans[w]) || plans[w][seq] != n || i+n > len(win) {
					return false, fmt.Sprintf("record header at window offset %d does not describe a Write that was made (writer %d seq %d len %d)", i, w, seq, n)
				}
				want := mk(w, seq, n)
				if !bytes.Equal(win[i:i+n], want) {
					k := 0
					for k < n && win[i+k] == want[k] {
						k++
					}
					return false, fmt.Sprintf("the %d bytes of writer %d's Write #%d are not contiguous: foreign bytes start %d bytes into it (absolute offset %d)", n, w, seq, k, rp+uint64(i+k))
				}
				if ls, ok := lastSeq[w]; ok && seq != ls+1 {
					return false, fmt.Sprintf("writer %d's Write #%d follows its Write #%d", w, seq, ls)
				}
				lastSeq[w] = seq
				i += n
			}
			return true, ""
		}
		why := ""
		ok := false
		for from := 0; from <= maxRec && from <= len(win); from++ {
			if good, w := parse(from); good {
				ok = true
				break
			} else if from == 0 || why == "" {
				why = w
			}
		}
		if !ok {
			viol = core.Violate("write-not-contiguous", backend, "the retained window [%d,%d) is not a chain of whole Writes: %s", rp, wp, why)
			return
		}
		c.Probe("several_writers")
	})
	c.Absorb(s)
	c.Nontrivial = true
	return viol
}

func runC18Single(c *core.Ctx) *core.Violation {
	t := c.T
	backend := "mem"
	capacity := 4096
	switch k := t.Choose(12); k {
	case 11:
		backend = "file"
		capacity = backlog.FileSizeAlign
	default:
		// 1..8 alignment units, including capacities that are not powers of two
		capacity = 4096 * []int{1, 1, 1, 2, 2, 3, 3, 5, 6, 7, 4}[k]
	}
	reqSize := capacity
	if backend == "mem" && t.Chance(300) {
		reqSize = capacity - 1 - t.Choose(4000)
		if reqSize < 1 {
			reqSize = 1
		}
	}
	salt := byte(t.Choose(256))
	nReaders := 1 + t.Choose(3)
	nW := 1 + t.Choose(14)
	if backend == "file" {
		nW = 1 + t.Choose(4)
	}
	var wsizes []int
	for i := 0; i < nW; i++ {
		wsizes = append(wsizes, sizeMenu(c, capacity))
	}
	if t.Chance(300) {
		// many wrap-arounds
		for i := 0; i < 8; i++ {
			wsizes = append(wsizes, capacity*(1+t.Choose(3))+t.Choose(7))
		}
	}
	type rop struct {
		Kind string // readat read seek valid range newreader
		N    int
		Rel  int // offset selector
		D    int
	}
	scripts := make([][]rop, nReaders)
	for r := range scripts {
		n := 1 + t.Choose(10)
		for i := 0; i < n; i++ {
			var o rop
			switch t.Choose(8) {
			case 0, 1, 2:
				o = rop{Kind: "readat", N: sizeMenu(c, capacity), Rel: t.Choose(9), D: t.Choose(40)}
			case 3, 4:
				o = rop{Kind: "read", N: sizeMenu(c, capacity)}
			case 5:
				o = rop{Kind: "seek", Rel: t.Choose(9), D: t.Choose(40)}
			case 6:
				o = rop{Kind: "range"}
			case 7:
				o = rop{Kind: "valid"}
			}
			scripts[r] = append(scripts[r], o)
		}
	}
	closeMode := t.Choose(4) // 0 none (root closes at the end), 1 closer Close, 2 closer CloseWithError, 3 writer closes at end
	closerDelay := t.Choose(60)
	c.Sample = map[string]interface{}{
		"backend": backend, "capacity": capacity, "requested_size": reqSize, "writes": fmt.Sprint(wsizes),
		"reader_scripts": fmt.Sprint(scripts), "close_mode": closeMode, "closer_delay": closerDelay,
	}

	var (
		viol      *core.Violation
		wDone     uint64
		wInflight uint64
		closing   bool
		closed    bool
		writerFin bool
		finished  = make([]bool, nReaders)
		parkedAt  = make([]int64, nReaders) // offset of the blocking read in progress, -1 if none
		gotErr    = make([]error, nReaders)
	)
	for i := range parkedAt {
		parkedAt[i] = -1
	}
	fail := func(clause, site, f string, a ...interface{}) {
		if viol == nil {
			viol = core.Violate(clause, site, f, a...)
		}
	}
	capU := uint64(capacity)
	lowOf := func(w uint64) uint64 {
		if w > capU {
			return w - capU
		}
		return 0
	}
	isClosedErr := func(err error) bool {
		return errors.Equal(err, backlog.ErrClosedBacklog) || errors.Equal(err, errBacklogCustom)
	}
	pickOffset := func(rel, d int) uint64 {
		w := wDone
		var o int64
		switch rel {
		case 0:
			o = int64(w) // blocks
		case 1:
			o = int64(w) - int64(d) - 1
		case 2:
			o = int64(w) - int64(capU) // oldest valid byte
		case 3:
			o = int64(w) - int64(capU) - 1 - int64(d) // overwritten
		case 4:
			o = int64(w) + 1 + int64(d) // beyond the write position
		case 5:
			o = 0
		case 6:
			o = int64(w) - int64(capU)/2
		case 7:
			o = int64(w) - int64(capU) + int64(d)
		default:
			o = int64(w+wInflight) - int64(d)
		}
		if o < 0 {
			o = 0
		}
		return uint64(o)
	}

	cfg := simrt.Config{
		MaxSteps: 400000, MaxSimTime: 10 * time.Hour,
		LockYield: map[string]bool{"pkg/libs/io/backlog/": true},
		Trace:     c.Trace,
	}
	if t.Chance(500) {
		cfg.Sticky = 600 + t.Choose(350)
	}
	var lockHash uint64
	s := simrt.Run(c.TT, t, cfg, func(s *simrt.Sim) {
		var bl *backlog.Backlog
		if backend == "mem" {
			bl = backlog.NewSize(reqSize)
		} else {
			f, err := os.OpenFile(filepath.Join(c.TmpDir, "backlog.bin"), os.O_CREATE|os.O_RDWR|os.O_TRUNC, 0600)
			if err != nil {
				panic(err)
			}
			defer f.Close()
			bl = backlog.NewFileBacklog(reqSize, f)
		}
		p := s.NewProc("backlog-users")

		// checked ReadAt; returns n and whether the reader should stop
		readAt := func(id int, b []byte, o uint64, via func() (int, error)) (int, bool) {
			lo1 := wDone
			closingBefore := closing
			parkedAt[id] = int64(o)
			n, err := via()
			parkedAt[id] = -1
			hi2 := wDone + wInflight
			if n < 0 || n > len(b) {
				fail("read-count", "range", "read(%d)@%d returned n=%d", len(b), o, n)
				return n, true
			}
			if err != nil {
				if n != 0 {
					fail("read-error", "data-with-error", "read(%d)@%d returned n=%d with %v", len(b), o, n, err)
					return n, true
				}
				if errors.Equal(err, backlog.ErrInvalidOffset) {
					// legal iff for some possible write position the offset is outside the window
					if !(o > lo1 || o+capU < hi2) {
						fail("invalid-offset", "spurious", "read@%d reported invalid offset but it was inside the window for every write position in [%d,%d] (cap %d)", o, lo1, hi2, capU)
					}
					c.Probe("invalid_offset_reported")
					return 0, false
				}
				if closing && isClosedErr(err) {
					gotErr[id] = err
					return 0, true
				}
				fail("read-error", "unexpected", "read(%d)@%d failed with %v (closing=%v)", len(b), o, err, closing)
				return 0, true
			}
			if n == 0 {
				if len(b) != 0 {
					fail("read-zero", "nil-error", "read(%d)@%d returned 0, nil", len(b), o)
					return 0, true
				}
				return 0, false
			}
			// data: must be the bytes written at o.., and must have existed and not been overwritten
			wmin := lo1
			if o+uint64(n) > wmin {
				wmin = o + uint64(n)
			}
			wmax := hi2
			if o+capU < wmax {
				wmax = o + capU
			}
			if wmin > wmax {
				fail("read-window", backend, "read@%d returned %d bytes, impossible for any write position in [%d,%d] with capacity %d (closingBefore=%v)", o, n, lo1, hi2, capU, closingBefore)
				return n, true
			}
			for i := 0; i < n; i++ {
				if b[i] != streamByte(o+uint64(i), salt) {
					fail("read-bytes", backend, "read@%d returned a wrong byte for offset %d (got %#x want %#x); write position in [%d,%d], cap %d", o, o+uint64(i), b[i], streamByte(o+uint64(i), salt), lo1, hi2, capU)
					return n, true
				}
			}
			return n, false
		}

		s.GoProc(p, "writer", func() {
			defer func() { writerFin = true }()
			for _, k := range wsizes {
				buf := make([]byte, k)
				fillStream(buf, wDone, salt)
				wInflight = uint64(k)
				closedBefore := closed
				n, err := bl.Write(buf)
				// the caller owns its buffer again once Write has returned (producers reuse one block buffer)
				for i := range buf {
					buf[i] = 0xEE
				}
				wInflight = 0
				if n < 0 || n > k {
					fail("write-count", "range", "Write(%d) returned %d", k, n)
					return
				}
				wDone += uint64(n)
				if err == nil && n != k {
					fail("write-short", "nil-error", "Write(%d) returned %d, nil", k, n)
					return
				}
				if err != nil {
					if !closing {
						fail("write-error", "no-close", "Write(%d) failed with %v", k, err)
					}
					return
				}
				if closedBefore && k > 0 {
					fail("write-after-close", "succeeded", "Write(%d) succeeded after Close returned", k)
					return
				}
			}
			if closeMode == 3 {
				closing = true
				bl.Close()
				closed = true
			}
		})

		for id := 0; id < nReaders; id++ {
			id := id
			s.GoProc(p, fmt.Sprintf("reader%d", id), func() {
				defer func() { finished[id] = true }()
				var rd *backlog.Reader
				getReader := func() *backlog.Reader {
					if rd == nil {
						lo1 := wDone
						r, err := bl.NewReader()
						if err != nil {
							if !closing {
								fail("newreader", "error-no-close", "NewReader failed with %v", err)
							}
							return nil
						}
						if !closing && (r.Offset() < lo1 || r.Offset() > wDone+wInflight) {
							fail("newreader", "offset", "NewReader starts at %d, write position was in [%d,%d]", r.Offset(), lo1, wDone+wInflight)
						}
						rd = r
					}
					return rd
				}
				for _, op := range scripts[id] {
					if viol != nil {
						return
					}
					switch op.Kind {
					case "readat":
						o := pickOffset(op.Rel, op.D)
						b := make([]byte, op.N)
						if _, stop := readAt(id, b, o, func() (int, error) { return bl.ReadAt(b, o) }); stop {
							return
						}
					case "read":
						r := getReader()
						if r == nil {
							return
						}
						b := make([]byte, op.N)
						o := r.Offset()
						n, stop := readAt(id, b, o, func() (int, error) { return r.Read(b) })
						if r.Offset() != o+uint64(n) {
							fail("reader-offset", "advance", "Reader.Read returned %d but offset moved from %d to %d", n, o, r.Offset())
						}
						if stop {
							return
						}
					case "seek", "valid":
						r := getReader()
						if r == nil {
							return
						}
						lo1 := wDone
						var ok bool
						var o uint64
						if op.Kind == "seek" {
							o = pickOffset(op.Rel, op.D)
							ok = r.SeekTo(o)
						} else {
							o = r.Offset()
							ok = r.IsValid()
						}
						hi2 := wDone + wInflight
						if closing {
							break
						}
						// valid for write position w iff max(0,w-cap) <= o <= w
						possTrue := o <= hi2 && lowOf(lo1) <= o // exists w in [lo1,hi2] with o in window: take w = max(lo1,o)
						if possTrue {
							w := lo1
							if o > w {
								w = o
							}
							possTrue = w <= hi2 && lowOf(w) <= o
						}
						possFalse := o > lo1 || lowOf(hi2) > o
						if ok && !possTrue {
							fail("is-valid", "true-outside-window", "reader at %d reported valid; write position in [%d,%d], cap %d", o, lo1, hi2, capU)
						}
						if !ok && !possFalse {
							fail("is-valid", "false-inside-window", "reader at %d reported invalid; write position in [%d,%d], cap %d", o, lo1, hi2, capU)
						}
					case "range":
						lo1 := wDone
						rp, wp, err := bl.DataRange()
						hi2 := wDone + wInflight
						if err != nil {
							if !closing {
								fail("data-range", "error-no-close", "DataRange failed with %v", err)
							}
							break
						}
						if closing {
							break
						}
						if wp < lo1 || wp > hi2 || rp != lowOf(wp) {
							fail("data-range", backend, "DataRange()=(%d,%d); write position in [%d,%d], cap %d", rp, wp, lo1, hi2, capU)
						}
					}
				}
			})
		}
		if closeMode == 1 || closeMode == 2 {
			s.GoProc(p, "closer", func() {
				for i := 0; i < closerDelay; i++ {
					s.Yield("closer.delay")
				}
				closing = true
				if closeMode == 1 {
					bl.Close()
				} else {
					bl.CloseWithError(errBacklogCustom)
				}
				closed = true
			})
		}
		allFin := func() bool {
			if !writerFin {
				return false
			}
			for _, f := range finished {
				if !f {
					return false
				}
			}
			return true
		}
		for i := 0; i < 50 && !allFin(); i++ {
			s.Sleep(time.Second)
		}
		lockHash = s.LockOrderHash()
		if viol != nil {
			return
		}
		if !writerFin {
			fail("write-blocks", "", "the writer did not finish: %v", s.TaskStates())
			return
		}
		if !allFin() {
			c.Probe("reader_parked_at_quiescence")
			if closed {
				fail("close-wakes", "after-close", "a reader is still parked after Close returned: %v", s.TaskStates())
				return
			}
			for id, o := range parkedAt {
				if finished[id] {
					continue
				}
				if o < 0 || uint64(o) != wDone {
					fail("lost-wakeup", "reader-parked", "reader %d parked in a read at offset %d but the write position is %d (cap %d)", id, o, wDone, capU)
					return
				}
			}
			// exact data range at a quiescent point
			rp, wp, err := bl.DataRange()
			if err != nil || wp != wDone || rp != lowOf(wDone) {
				fail("data-range", "quiescent", "DataRange()=(%d,%d,%v) but %d bytes were written (cap %d)", rp, wp, err, wDone, capU)
				return
			}
			closing = true
			bl.Close()
			closed = true
			for i := 0; i < 50 && !allFin(); i++ {
				s.Sleep(time.Second)
			}
			if !allFin() {
				fail("close-wakes", "final", "Close did not release the parked readers: %v", s.TaskStates())
				return
			}
			for id := range finished {
				if parkedAt[id] == -1 && gotErr[id] == nil {
					// a reader that was parked must have come back with an error
				}
			}
			c.Probe("close_released_parked_reader")
		} else if !closed {
			rp, wp, err := bl.DataRange()
			if err != nil || wp != wDone || rp != lowOf(wDone) {
				fail("data-range", "idle", "DataRange()=(%d,%d,%v) but %d bytes were written (cap %d)", rp, wp, err, wDone, capU)
				return
			}
			// exact reads on an idle backlog: oldest valid byte, newest byte, one before the window, one past the end
			if wDone > 0 {
				b := make([]byte, 7)
				lo := lowOf(wDone)
				n, err := bl.ReadAt(b, lo)
				if err != nil || n == 0 {
					fail("read-window", "idle-oldest", "ReadAt(oldest=%d) = %d, %v on an idle backlog with %d written", lo, n, err, wDone)
					return
				}
				for i := 0; i < n; i++ {
					if b[i] != streamByte(lo+uint64(i), salt) {
						fail("read-bytes", "idle-oldest", "wrong byte at %d", lo+uint64(i))
						return
					}
				}
				if lo > 0 {
					if n, err := bl.ReadAt(b, lo-1); !errors.Equal(err, backlog.ErrInvalidOffset) {
						fail("invalid-offset", "missed-overwritten", "ReadAt(%d) = %d, %v but the window starts at %d", lo-1, n, err, lo)
						return
					}
				}
				if n, err := bl.ReadAt(b, wDone+1); !errors.Equal(err, backlog.ErrInvalidOffset) {
					fail("invalid-offset", "missed-beyond", "ReadAt(%d) = %d, %v but only %d bytes were written", wDone+1, n, err, wDone)
					return
				}
			}
			closing = true
			bl.Close()
			closed = true
		}
		// after close: reads and writes fail, never block
		b := make([]byte, 4)
		if n, err := bl.ReadAt(b, wDone); err == nil || n != 0 {
			fail("read-after-close", "", "ReadAt after Close = %d, %v", n, err)
		}
		if n, err := bl.Write(b); err == nil || n != 0 {
			fail("write-after-close", "post", "Write after Close = %d, %v", n, err)
		}
	})
	c.Absorb(s)
	c.Key = lockHash ^ s.Hash()
	if wDone > 2*uint64(capacity) {
		c.Probe("many_wraps")
	}
	if backend == "file" {
		c.Probe("file_backend")
	}
	c.Nontrivial = s.Steps > 20 && wDone > 0
	if viol == nil && s.EndReason != "stop" {
		return core.Violate("run-did-not-finish", s.EndReason, "run ended by %s: %v", s.EndReason, s.TaskStates())
	}
	return viol
}

func init() {
	core.Register(&core.Prop{
		ID:         "C18",
		Run:        runC18,
		QuickRuns:  12000,
		PerProcess: 400,
		Rule: "one run = tape-drawn (backend, capacity, write sizes, 1-3 reader scripts of ReadAt/Reader.Read/SeekTo/IsValid/DataRange with offsets chosen " +
			"relative to the write position: at it, just inside, oldest byte, just overwritten, beyond), closer) under a tape-chosen interleaving with scheduling points " +
			"at every lock acquisition and cond wait of the backlog package; distinct = distinct hash of (grant sequence, lock order); non-trivial = >20 steps and bytes written",
		Assumptions: []string{
			"segments between scheduling points are atomic; word-level races are not explored",
			"file-backed backlog uses a real file in a per-run temp dir; disk errors are not injected",
			"behaviour of DataRange/IsValid after Close is not asserted (the statement is silent on it)",
		},
		RealVsStub: "real: pkg/libs/io/backlog (instrumented locks/conds), pkg/libs/errors; simulated: goroutine scheduling (simrt), clock (synctest)",
		ProbeNames: []string{"several_writers", "many_wraps", "file_backend", "invalid_offset_reported", "reader_parked_at_quiescence", "close_released_parked_reader"},
	})
}
