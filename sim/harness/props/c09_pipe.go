package props

import (
	"fmt"
	"io"
	"os"
	"path/filepath"
	"time"

	"github.com/alibaba/RedisShake/pkg/libs/errors"
	"github.com/alibaba/RedisShake/pkg/libs/io/pipe"
	"github.com/alibaba/RedisShake/pkg/simrt"

	"verifsim/core"
)

// C09 — the pipe is a lossless, deadlock-free FIFO byte stream with exact close rules.
//
// Scenario: one writer task, one reader task and an optional closer task run
// tape-drawn operation scripts against pipe.NewSize / pipe.NewFilePipe with
// lock-level scheduling points enabled for the pipe package. Oracle: a
// reference byte queue (stream byte i is a function of i), operation-by-
// operation checks, and quiescence analysis for lost wake-ups.

func streamByte(i uint64, salt byte) byte {
	return byte(i*131+(i>>8)*7+(i>>16)*3) ^ salt
}

func fillStream(b []byte, from uint64, salt byte) {
	for i := range b {
		b[i] = streamByte(from+uint64(i), salt)
	}
}

type pipeOp struct {
	Kind string // write read avail buffered close closeerr
	N    int
}

func (o pipeOp) String() string {
	if o.Kind == "write" || o.Kind == "read" {
		return fmt.Sprintf("%s(%d)", o.Kind, o.N)
	}
	return o.Kind
}

func sizeMenu(c *core.Ctx, capacity int) int {
	switch c.T.Choose(12) {
	case 0:
		return 1
	case 1:
		return 0
	case 2:
		return capacity
	case 3:
		return capacity - 1
	case 4:
		return capacity + 1
	case 5:
		return capacity * 3 / 2
	case 6:
		return 2
	case 7:
		return capacity / 2
	case 8:
		return capacity/2 + 1
	case 9:
		return 1 + c.T.Choose(64)
	case 10:
		return 1 + c.T.Choose(capacity)
	default:
		return 1 + c.T.Choose(2*capacity)
	}
}

var errWriterCustom = fmt.Errorf("writer-custom-error")
var errReaderCustom = fmt.Errorf("reader-custom-error")

func runC09(c *core.Ctx) *core.Violation {
	t := c.T
	// ---- draw the case
	backend := "mem"
	capacity := 4096
	switch k := t.Choose(12); k {
	case 11:
		backend = "file"
		capacity = pipe.FileSizeAlign
	case 10:
		if c.Thorough() {
			capacity = 65536
		} else {
			capacity = 16384
		}
	default:
		// 1..7 alignment units, including capacities that are not powers of two
		capacity = 4096 * []int{1, 1, 1, 2, 2, 3, 3, 5, 6, 7}[k]
	}
	reqSize := capacity
	if backend == "mem" && t.Chance(300) {
		// unaligned request: must be rounded up to the alignment unit
		reqSize = capacity - 1 - t.Choose(4000)
		if reqSize < 1 {
			reqSize = 1
		}
	}
	nW := 1 + t.Choose(8)
	nR := 1 + t.Choose(10)
	if backend == "file" {
		nW = 1 + t.Choose(4)
		nR = 1 + t.Choose(5)
	}
	var wops, rops []pipeOp
	for i := 0; i < nW; i++ {
		if t.Chance(120) {
			wops = append(wops, pipeOp{"avail", 0})
		} else {
			wops = append(wops, pipeOp{"write", sizeMenu(c, capacity)})
		}
	}
	wclose := t.Choose(4) // 0 close, 1 closeerr, 2 none, 3 close
	switch wclose {
	case 0, 3:
		wops = append(wops, pipeOp{"close", 0})
	case 1:
		wops = append(wops, pipeOp{"closeerr", 0})
	}
	if wclose != 2 && t.Choose(4) == 3 {
		// a second close of the other kind (the usual deferred Close after CloseWithError, or the reverse): the first one sticks
		if wclose == 1 {
			wops = append(wops, pipeOp{"close", 0})
		} else {
			wops = append(wops, pipeOp{"closeerr", 0})
		}
	}
	for i := 0; i < nR; i++ {
		if t.Chance(120) {
			rops = append(rops, pipeOp{"buffered", 0})
		} else {
			rops = append(rops, pipeOp{"read", sizeMenu(c, capacity)})
		}
	}
	readerEnd := t.Choose(5) // 0 drain until error, 1 close, 2 closeerr, 3 stop, 4 drain
	closer := t.Choose(6)    // 0,1,2 none; 3 closes writer side; 4 closes reader side; 5 closes reader with error
	closerDelay := t.Choose(40)
	salt := byte(t.Choose(256))
	readerSecondClose := t.Choose(4) == 3

	c.Sample = map[string]interface{}{
		"backend": backend, "capacity": capacity, "requested_size": reqSize,
		"writer": fmt.Sprint(wops), "reader": fmt.Sprint(rops), "reader_end": readerEnd, "closer": closer, "closer_delay": closerDelay,
	}

	// ---- shared model state (only the baton holder touches it)
	type wres struct {
		op  pipeOp
		n   int
		err error
	}
	var (
		viol         *core.Violation
		wDone        uint64 // bytes of completed Write calls
		wInflight    uint64 // size of the Write call in progress (0 if none)
		wInflightMin uint64
		rDone        uint64 // bytes returned by Read calls
		wClosed      bool   // writer side closed (by anyone), call returned
		wClosing     bool   // a writer-side close has been invoked
		wErrs        []error
		rClosed      bool
		rClosing     bool
		rErrs        []error
		gotWErrAt    int64 = -1
		writerFin    bool
		readerFin    bool
		readerInRead bool
		readerWant   int
	)
	// close calls per side in invocation order; the first one wins if it returned before any other was invoked
	type closeCall struct {
		err      error
		returned bool
	}
	var wCloses, rCloses []*closeCall
	beginClose := func(list *[]*closeCall, err error) *closeCall {
		cc := &closeCall{err: err}
		*list = append(*list, cc)
		return cc
	}
	// firstOf returns the error that must stick, or nil when the calls overlapped and either may have won
	firstOf := func(list []*closeCall) error {
		if len(list) == 0 {
			return nil
		}
		return list[0].err
	}
	var wOverlap, rOverlap bool
	oneOf := func(err error, set []error) bool {
		for _, e := range set {
			if errors.Equal(err, e) {
				return true
			}
		}
		return false
	}
	fail := func(clause, site, f string, a ...interface{}) {
		if viol == nil {
			viol = core.Violate(clause, site, f, a...)
		}
	}

	cfg := simrt.Config{
		MaxSteps:   400000,
		MaxSimTime: 10 * time.Hour,
		LockYield:  map[string]bool{"pkg/libs/io/pipe/": true},
		Trace:      c.Trace,
	}
	if t.Chance(500) {
		cfg.Sticky = 600 + t.Choose(350)
	}
	var lockHash uint64
	s := simrt.Run(c.TT, t, cfg, func(s *simrt.Sim) {
		var r pipe.Reader
		var w pipe.Writer
		var f *os.File
		if backend == "mem" {
			r, w = pipe.NewSize(reqSize)
		} else {
			var err error
			f, err = os.OpenFile(filepath.Join(c.TmpDir, "pipe.bin"), os.O_CREATE|os.O_RDWR|os.O_TRUNC, 0600)
			if err != nil {
				panic(err)
			}
			defer f.Close()
			r, w = pipe.NewFilePipe(reqSize, f)
		}
		p := s.NewProc("pipe-users")

		// ---- writer
		s.GoProc(p, "writer", func() {
			defer func() { writerFin = true }()
			for _, op := range wops {
				switch op.Kind {
				case "write":
					buf := make([]byte, op.N)
					fillStream(buf, wDone, salt)
					wInflight = uint64(op.N)
					closedBefore := wClosed || rClosed
					n, err := w.Write(buf)
					for i := range buf {
						buf[i] = 0xEE // the buffer is the caller's again once Write has returned
					}
					wInflight = 0
					if n < 0 || n > op.N {
						fail("write-count", "range", "Write(%d) returned n=%d", op.N, n)
						return
					}
					wDone += uint64(n)
					if err == nil && n != op.N {
						fail("write-short", "nil-error", "Write(%d) returned n=%d with nil error", op.N, n)
						return
					}
					if err != nil {
						// legal only if some close has been invoked
						if !wClosing && !rClosing {
							fail("write-error", "no-close", "Write(%d) failed with %v although nothing was closed", op.N, err)
						}
						if closedBefore && n != 0 {
							fail("write-after-close", "accepted-bytes", "Write(%d) after close accepted %d bytes (err %v)", op.N, n, err)
						}
						return
					}
					if closedBefore && op.N > 0 {
						fail("write-after-close", "succeeded", "Write(%d) succeeded after a completed close", op.N)
					}
				case "avail":
					n, err := w.Available()
					if err == nil {
						// available = capacity - (written - read); bounds from what we know
						lo := int64(capacity) - int64(wDone-rDone) // reader may have read more since: only grows
						_ = lo
						if n < 0 || n > capacity {
							fail("available", "range", "Available()=%d outside [0,%d]", n, capacity)
						}
						if !readerInRead && !readerFin && false {
							_ = n
						}
					} else if !wClosing && !rClosing {
						fail("available", "error-no-close", "Available() failed with %v although nothing was closed", err)
					}
				case "close":
					wClosing = true
					wErrs = append(wErrs, io.EOF)
					if len(wCloses) > 0 && !wCloses[len(wCloses)-1].returned {
						wOverlap = true
					}
					cc := beginClose(&wCloses, io.EOF)
					w.Close()
					cc.returned = true
					wClosed = true
				case "closeerr":
					wClosing = true
					wErrs = append(wErrs, errWriterCustom)
					if len(wCloses) > 0 && !wCloses[len(wCloses)-1].returned {
						wOverlap = true
					}
					cc := beginClose(&wCloses, errWriterCustom)
					w.CloseWithError(errWriterCustom)
					cc.returned = true
					wClosed = true
				}
				if viol != nil {
					return
				}
			}
		})

		// ---- reader
		doRead := func(k int) (stop bool) {
			buf := make([]byte, k)
			closedBefore := rClosed
			wClosedBefore := wClosed
			wDoneBefore := wDone
			readerInRead, readerWant = true, k
			n, err := r.Read(buf)
			readerInRead = false
			if n < 0 || n > k {
				fail("read-count", "range", "Read(%d) returned n=%d", k, n)
				return true
			}
			// bytes must be the next bytes of the stream
			for i := 0; i < n; i++ {
				if buf[i] != streamByte(rDone+uint64(i), salt) {
					fail("fifo-bytes", backend, "Read(%d) returned wrong byte at stream offset %d (got %#x want %#x), n=%d rDone=%d wDone=%d",
						k, rDone+uint64(i), buf[i], streamByte(rDone+uint64(i), salt), n, rDone, wDone)
					return true
				}
			}
			if rDone+uint64(n) > wDone+wInflight {
				fail("fifo-bytes", "more-than-written", "reader got %d bytes but only %d were written", rDone+uint64(n), wDone+wInflight)
				return true
			}
			rDone += uint64(n)
			if closedBefore {
				if err == nil {
					fail("read-after-rclose", "no-error", "Read(%d) after reader close returned n=%d, nil", k, n)
				} else if !errors.Equal(err, io.ErrClosedPipe) {
					fail("read-after-rclose", "wrong-error", "Read(%d) after reader close: %v", k, err)
				}
				return true
			}
			if err != nil {
				if n != 0 {
					fail("read-error", "data-with-error", "Read(%d) returned n=%d together with %v", k, n, err)
					return true
				}
				if rClosing {
					return true // concurrent reader close: closed-pipe error is fine
				}
				if !wClosing {
					fail("read-error", "no-close", "Read(%d) failed with %v although nothing was closed", k, err)
					return true
				}
				// writer closed: every accepted byte must have been drained first
				// (exact check once the writer task has finished, see below)
				if rDone < wDoneBefore || (wInflight == 0 && rDone != wDone) {
					fail("drain-before-error", backend, "reader got %v after %d bytes but %d had been written", err, rDone, wDone)
					return true
				}
				gotWErrAt = int64(rDone)
				if !oneOf(err, wErrs) {
					fail("writer-error-identity", "", "reader got %v, writer side closed with %v", err, wErrs)
				} else if fe := firstOf(wCloses); fe != nil && !wOverlap && wCloses[0].returned && !errors.Equal(err, fe) {
					fail("writer-error-identity", "first-close-wins", "reader got %v, but the writer side was first closed with %v (closes in order: %d)", err, fe, len(wCloses))
				}
				return true
			}
			if n == 0 && k > 0 {
				fail("read-zero", "nil-error", "Read(%d) returned 0, nil", k)
				return true
			}
			_ = wClosedBefore
			return false
		}
		s.GoProc(p, "reader", func() {
			defer func() { readerFin = true }()
			for _, op := range rops {
				switch op.Kind {
				case "read":
					if doRead(op.N) {
						return
					}
				case "buffered":
					n, err := r.Buffered()
					if err == nil {
						max := int64(wDone+wInflight) - int64(rDone)
						min := int64(wDone+wInflightMin) - int64(rDone)
						if int64(n) > max || int64(n) < min || n > capacity {
							fail("buffered", "bounds", "Buffered()=%d, model says between %d and %d (cap %d)", n, min, max, capacity)
						}
					} else if !wClosing && !rClosing {
						fail("buffered", "error-no-close", "Buffered() failed with %v although nothing was closed", err)
					}
				}
				if viol != nil {
					return
				}
			}
			switch readerEnd {
			case 0, 4:
				for i := 0; i < 100000; i++ {
					if doRead(1 + (i*977)%(capacity+3)) {
						return
					}
					if viol != nil {
						return
					}
				}
			case 1, 2:
				first, second := error(io.ErrClosedPipe), error(errReaderCustom)
				if readerEnd == 2 {
					first, second = second, first
				}
				for i, e := range []error{first, second} {
					if i == 1 && !readerSecondClose {
						break
					}
					rClosing = true
					rErrs = append(rErrs, e)
					if len(rCloses) > 0 && !rCloses[len(rCloses)-1].returned {
						rOverlap = true
					}
					cc := beginClose(&rCloses, e)
					if errors.Equal(e, io.ErrClosedPipe) {
						r.Close()
					} else {
						r.CloseWithError(e)
					}
					cc.returned = true
					rClosed = true
				}
				doRead(5)
			}
		})

		// ---- closer
		if closer >= 3 {
			s.GoProc(p, "closer", func() {
				for i := 0; i < closerDelay; i++ {
					s.Yield("closer.delay")
				}
				switch closer {
				case 3:
					wClosing = true
					wErrs = append(wErrs, io.EOF)
					if len(wCloses) > 0 && !wCloses[len(wCloses)-1].returned {
						wOverlap = true
					}
					cc := beginClose(&wCloses, io.EOF)
					w.Close()
					cc.returned = true
					wClosed = true
				case 4:
					rClosing = true
					rErrs = append(rErrs, io.ErrClosedPipe)
					if len(rCloses) > 0 && !rCloses[len(rCloses)-1].returned {
						rOverlap = true
					}
					cc := beginClose(&rCloses, io.ErrClosedPipe)
					r.Close()
					cc.returned = true
					rClosed = true
				case 5:
					rClosing = true
					rErrs = append(rErrs, errReaderCustom)
					if len(rCloses) > 0 && !rCloses[len(rCloses)-1].returned {
						rOverlap = true
					}
					cc := beginClose(&rCloses, errReaderCustom)
					r.CloseWithError(errReaderCustom)
					cc.returned = true
					rClosed = true
				}
			})
		}

		// ---- wait for quiescence: the pipe has no timers, so if everything is parked time jumps
		for i := 0; i < 50 && !(writerFin && readerFin); i++ {
			s.Sleep(time.Second)
		}
		if viol != nil {
			return
		}
		lockHash = s.LockOrderHash()
		if !(writerFin && readerFin) {
			c.Probe("quiescent_with_parked_side")
			// somebody is parked for good: is that legal?
			parkedW := !writerFin
			parkedR := !readerFin
			if wClosed || rClosed {
				// a completed close must have released both sides
				fail("close-wakes", fmt.Sprintf("parkedW=%v,parkedR=%v,wClosed=%v,rClosed=%v", parkedW, parkedR, wClosed, rClosed),
					"a side is still parked after a completed close: %v", s.TaskStates())
				return
			}
			if parkedW && parkedR {
				fail("deadlock", "both-parked", "writer and reader both parked: wDone=%d inflight=%d rDone=%d cap=%d %v", wDone, wInflight, rDone, capacity, s.TaskStates())
				return
			}
			if parkedR {
				// legal only if the pipe is empty: everything written has been read
				if rDone < wDone {
					fail("lost-wakeup", "reader-parked-nonempty", "reader parked in Read(%d) with %d bytes buffered", readerWant, wDone-rDone)
					return
				}
			}
			if parkedW {
				// legal only if the pipe is full: written - read == capacity for some written in [wDone, wDone+wInflight]
				if rDone+uint64(capacity) > wDone+wInflight {
					fail("lost-wakeup", "writer-parked-not-full", "writer parked with at most %d of %d bytes buffered", wDone+wInflight-rDone, capacity)
					return
				}
			}
			// Buffered + Available = capacity at a quiescent point
			b, e1 := r.Buffered()
			a, e2 := w.Available()
			if e1 == nil && e2 == nil && a+b != capacity {
				fail("buffered-plus-available", "quiescent", "Buffered()=%d + Available()=%d != capacity %d", b, a, capacity)
				return
			}
			// now close the opposite side: the parked side must be released
			if parkedR {
				wClosing = true
				wErrs = append(wErrs, io.EOF)
				cc := beginClose(&wCloses, io.EOF)
				w.Close()
				cc.returned = true
				wClosed = true
			} else {
				rClosing = true
				rErrs = append(rErrs, io.ErrClosedPipe)
				cc := beginClose(&rCloses, io.ErrClosedPipe)
				r.Close()
				cc.returned = true
				rClosed = true
			}
			for i := 0; i < 50 && !(writerFin && readerFin); i++ {
				s.Sleep(time.Second)
			}
			if viol == nil && !(writerFin && readerFin) {
				fail("close-wakes", fmt.Sprintf("final,parkedW=%v,parkedR=%v", !writerFin, !readerFin), "closing the other side did not release the parked side: %v", s.TaskStates())
			}
			return
		}
		// both finished. Quiescent checks on an idle pipe.
		if gotWErrAt >= 0 && uint64(gotWErrAt) != wDone {
			fail("drain-before-error", backend+"-final", "reader got the writer's error after %d bytes but the writer had %d bytes accepted", gotWErrAt, wDone)
			return
		}
		if !wClosed && !rClosed {
			b, e1 := r.Buffered()
			a, e2 := w.Available()
			if e1 != nil || e2 != nil {
				fail("buffered-plus-available", "error-on-open-pipe", "Buffered err=%v Available err=%v on an open pipe", e1, e2)
			} else {
				if a+b != capacity {
					fail("buffered-plus-available", "idle", "Buffered()=%d + Available()=%d != capacity %d", b, a, capacity)
				}
				if uint64(b) != wDone-rDone {
					fail("buffered", "idle-exact", "Buffered()=%d but %d written and %d read", b, wDone, rDone)
				}
			}
		}
		if rClosed {
			// after reader close nothing blocks and everything fails
			buf := make([]byte, 3)
			if n, err := r.Read(buf); err == nil || n != 0 {
				fail("read-after-rclose", "post", "Read after reader close: n=%d err=%v", n, err)
			}
			if n, err := w.Write(buf); err == nil || n != 0 {
				fail("write-after-rclose", "post", "Write after reader close: n=%d err=%v", n, err)
			} else if !wClosed && !oneOf(err, rErrs) && !errors.Equal(err, io.ErrClosedPipe) {
				fail("write-after-rclose", "wrong-error", "Write after reader close: %v (reader closed with %v)", err, rErrs)
			} else if fe := firstOf(rCloses); !wClosed && fe != nil && !rOverlap && len(rCloses) > 1 && !errors.Equal(err, fe) {
				fail("write-after-rclose", "first-close-wins", "Write after reader close: %v, but the reader side was first closed with %v", err, fe)
			}
			if len(rCloses) > 1 {
				c.Probe("reader_closed_twice")
			}
		} else if wClosed {
			// writer closed, reader open: drain then writer's error
			buf := make([]byte, capacity+1)
			for rDone < wDone {
				n, err := r.Read(buf)
				if err != nil || n == 0 {
					fail("drain-before-error", backend+"-post", "after writer close Read returned n=%d err=%v with %d bytes left", n, err, wDone-rDone)
					return
				}
				for i := 0; i < n; i++ {
					if buf[i] != streamByte(rDone+uint64(i), salt) {
						fail("fifo-bytes", backend+"-post", "wrong byte at offset %d", rDone+uint64(i))
						return
					}
				}
				rDone += uint64(n)
			}
			n, err := r.Read(buf)
			if n != 0 || !oneOf(err, wErrs) {
				fail("writer-error-identity", "post", "after draining, Read returned n=%d err=%v, writer closed with %v", n, err, wErrs)
			} else if fe := firstOf(wCloses); fe != nil && !wOverlap && !errors.Equal(err, fe) {
				fail("writer-error-identity", "post,first-close-wins", "after draining, Read returned %v, but the writer side was first closed with %v", err, fe)
			}
			if len(wCloses) > 1 {
				c.Probe("writer_closed_twice")
			}
			if n, err := w.Write([]byte{1}); err == nil || n != 0 {
				fail("write-after-close", "post", "Write after writer close: n=%d err=%v", n, err)
			}
		}
	})
	c.Absorb(s)
	c.Key = lockHash ^ s.Hash()
	if wDone > uint64(capacity) {
		c.Probe("wrapped_ring")
	}
	if backend == "file" {
		c.Probe("file_backend")
	}
	if wClosed && rDone == wDone && wDone > 0 {
		c.Probe("drained_after_wclose")
	}
	if rClosed {
		c.Probe("reader_closed")
	}
	if closer >= 3 {
		c.Probe("third_party_close")
	}
	c.Nontrivial = s.Steps > 20 && wDone > 0
	if viol == nil && s.EndReason != "stop" {
		return core.Violate("run-did-not-finish", s.EndReason, "run ended by %s: %v", s.EndReason, s.TaskStates())
	}
	return viol
}

func init() {
	core.Register(&core.Prop{
		ID:         "C09",
		Run:        runC09,
		QuickRuns:  12000,
		PerProcess: 400,
		Rule: "one run = a tape-drawn (backend, capacity, writer script, reader script, closer) executed under a tape-chosen interleaving with " +
			"scheduling points at every lock acquisition and cond wait of the pipe package; distinct = distinct hash of (grant sequence, lock acquisition order); " +
			"non-trivial = more than 20 scheduler steps and at least one byte written",
		Assumptions: []string{
			"segments between scheduling points (lock acquisitions, cond waits, task starts) are atomic; word-level races are not explored",
			"file-backed pipe uses a real file in a per-run temp dir; disk errors are not injected",
		},
		RealVsStub: "real: pkg/libs/io/pipe (instrumented locks/conds), pkg/libs/errors; simulated: goroutine scheduling (simrt), clock (synctest)",
		ProbeNames: []string{"wrapped_ring", "file_backend", "drained_after_wclose", "reader_closed", "third_party_close", "quiescent_with_parked_side", "writer_closed_twice", "reader_closed_twice"},
	})
}
