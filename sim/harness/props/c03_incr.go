package props

import (
	"bytes"
	"fmt"
	"strconv"
	"strings"
	"time"

	"github.com/alibaba/RedisShake/pkg/simrt"
	conf "github.com/alibaba/RedisShake/redis-shake/configure"

	"verifsim/core"
	"verifsim/env"
	"verifsim/modelredis"
	rc "verifsim/refcodec"
	"verifsim/simnet"
)

// C03 — incremental sync forwards the filtered command stream in order, exactly once.

// plantCheckpoint writes what the incremental sender would have written for (runid, offset) into db.
func plantCheckpoint(tgt *modelredis.Server, db int, source, runid string, offset int64, version int) {
	h := &rc.Value{Kind: rc.KHash}
	h.Hash = append(h.Hash,
		rc.Pair{F: []byte(source + "-runid"), V: []byte(runid)},
		rc.Pair{F: []byte(source + "-version"), V: []byte(strconv.Itoa(version))},
		rc.Pair{F: []byte(source + "-offset"), V: []byte(strconv.FormatInt(offset, 10))})
	tgt.Plant(db, "redis-shake-checkpoint", &modelredis.Entry{Val: h})
}

// dataLog extracts from the target's applied-command log the commands that carry source data
// (everything except the tool's own bookkeeping and connection set-up).
func dataLog(tgt *modelredis.Server) []modelredis.Applied {
	var out []modelredis.Applied
	for _, a := range tgt.Applied {
		switch a.Name() {
		case "select", "ping", "info", "exists", "restore", "hgetall", "hdel", "config":
			continue
		case "hset":
			if len(a.Args) >= 2 && bytes.HasPrefix(a.Args[1], []byte("redis-shake-checkpoint")) {
				continue
			}
		case "del":
			if len(a.Args) == 2 && bytes.HasPrefix(a.Args[1], []byte("rdbkey:")) {
				continue
			}
		}
		out = append(out, a)
	}
	return out
}

func argsEqual(a, b [][]byte) bool {
	if len(a) != len(b) {
		return false
	}
	for i := range a {
		if i == 0 {
			if !strings.EqualFold(string(a[i]), string(b[i])) {
				return false
			}
			continue
		}
		if !bytes.Equal(a[i], b[i]) {
			return false
		}
	}
	return true
}

func fmtArgs(a [][]byte) string {
	var sb strings.Builder
	for i, x := range a {
		if i > 0 {
			sb.WriteByte(' ')
		}
		fmt.Fprintf(&sb, "%q", clipS(x))
	}
	return sb.String()
}

func runC03(c *core.Ctx) *core.Violation {
	t := c.T
	env.DefaultOptions(conf.TypeSync)
	lc := env.CaptureLog([]string{"info", "debug", "warn"}[t.Choose(3)], 4<<20)
	if t.Choose(3) == 1 {
		conf.Options.LogLevel = "debug"
	}

	// ---- configuration
	f := FilterCfg{TargetDB: -1}
	switch t.Choose(5) {
	case 1:
		f.DBWhite = []string{strconv.Itoa(t.Choose(3))}
	case 2:
		f.DBBlack = []string{strconv.Itoa(t.Choose(3))}
	}
	prefixes := []string{"user:", "k1", "{tag}"}
	switch t.Choose(5) {
	case 1:
		f.KeyWhite = []string{prefixes[t.Choose(3)]}
	case 2:
		f.KeyBlack = []string{prefixes[t.Choose(3)]}
	case 3:
		f.KeyWhite = []string{prefixes[t.Choose(3)], "ctr"}
	}
	f.FilterLua = t.Choose(3) == 2
	if t.Choose(4) == 3 {
		f.TargetDB = t.Choose(4)
	}
	conf.Options.FilterDBWhitelist, conf.Options.FilterDBBlacklist = f.DBWhite, f.DBBlack
	conf.Options.FilterKeyWhitelist, conf.Options.FilterKeyBlacklist = f.KeyWhite, f.KeyBlack
	conf.Options.FilterLua = f.FilterLua
	conf.Options.TargetDB = f.TargetDB
	conf.Options.SenderCount = uint([]int{1024, 1, 2, 3, 10}[t.Choose(5)])
	conf.Options.SenderSize = uint64([]int{65535, 1, 64}[t.Choose(3)])
	resume := t.Choose(2) == 1
	conf.Options.ResumeFromBreakPoint = resume
	conf.Options.Parallel = 1 + t.Choose(3)
	startMode := 0 // 0 full resync, 1 continue from a planted checkpoint
	startDB := -1
	ckptDB := 0
	if resume && t.Choose(2) == 1 {
		// the checkpoint a previous run left behind sits in the db of its last forwarded command:
		// a db that passes the db filter (target.db when that is configured)
		var ok []int
		for d := 0; d < 3; d++ {
			if f.dbPasses(d) {
				ok = append(ok, d)
			}
		}
		if len(ok) > 0 {
			startMode = 1
			startDB = ok[t.Choose(len(ok))]
			ckptDB = startDB
			if f.TargetDB != -1 {
				ckptDB = f.TargetDB
			}
		}
	}
	o0 := int64([]int{0, 1, 1000, 123456789}[t.Choose(4)])

	// ---- the source stream and its pacing
	so := StreamOpts{MaxCmds: 25, DBs: 3, StartDB: startDB}
	if len(f.DBWhite)+len(f.DBBlack) > 0 && f.TargetDB == -1 && startDB <= 2 && t.Choose(2) == 1 {
		// two-digit databases whose number starts with a listed one (db filters name databases exactly)
		so.DBMenu = []int{0, 1, 2, 10, 12, 15, 11, 2}
	}
	if c.Thorough() {
		so.MaxCmds = 60
	}
	// pacing mode: 0 bursts with occasional gaps; 1 steady trickle (every command 50-450 ms after the
	// previous one, for longer than the liveness bound, nothing in the stream forcing a flush)
	pacing := 0
	if t.Choose(5) == 4 {
		pacing = 1
		so.FewBarriers, so.MinCmds, so.MaxCmds = true, 30, 50
	}
	cmds, stream := GenStream(t, so)
	want := ExpectedForward(cmds, f)
	// pacing: release command by command in bursts with gaps around the 500 ms flush ticker
	var rel []modelredis.Release
	at := time.Duration(0)
	gaps := []time.Duration{0, 0, 0, 10 * time.Millisecond, 100 * time.Millisecond, 400 * time.Millisecond, 499 * time.Millisecond, 500 * time.Millisecond, 501 * time.Millisecond, time.Second, 3 * time.Second}
	if c.Thorough() {
		gaps = append(gaps, 5*time.Second)
	}
	relAt := make([]time.Duration, len(cmds))
	base0 := 1500 * time.Millisecond // the handshake and the full phase come first
	for i, cm := range cmds {
		if pacing == 1 {
			at += time.Duration(50+t.Choose(401)) * time.Millisecond
		} else if i > 0 && t.Choose(3) == 0 {
			at += gaps[t.Choose(len(gaps))]
		}
		relAt[i] = base0 + at
		rel = append(rel, modelredis.Release{Upto: cm.EndOff, At: base0 + at})
	}
	rel = append(rel, modelredis.Release{Upto: len(stream), At: base0 + at})
	lastRelease := base0 + at

	stalls := t.Choose(3) == 2
	cfg := simrt.Config{MaxSteps: 2000000, MaxSimTime: time.Hour, Trace: c.Trace}
	if stalls {
		cfg.StallPerMille = 4
		cfg.StallMax = 1200 * time.Millisecond
	}
	if t.Choose(2) == 1 {
		cfg.Sticky = 500 + t.Choose(450)
	}
	netMode := t.Choose(3)
	c.Sample = map[string]interface{}{
		"filters": fmt.Sprintf("dbW=%v dbB=%v keyW=%v keyB=%v lua=%v targetDB=%d", f.DBWhite, f.DBBlack, f.KeyWhite, f.KeyBlack, f.FilterLua, f.TargetDB),
		"sender":  fmt.Sprintf("count=%d size=%d", conf.Options.SenderCount, conf.Options.SenderSize), "resume": resume, "start": []string{"fullresync", "continue"}[startMode],
		"start_db": startDB, "o0": o0, "commands": len(cmds), "expected_forwarded": len(want), "stalls": stalls, "net_mode": netMode,
		"stream_head": clipS(stream), "pacing": []string{"bursts", "trickle"}[pacing],
	}

	var viol *core.Violation
	var e *SyncEnv
	var diag []string
	s := simrt.Run(c.TT, t, cfg, func(s *simrt.Sim) {
		e = NewSyncEnv(c, s, lc)
		switch netMode {
		case 1:
			p := simnet.Profile{Split: 400, Latency: 300, MaxDelayMs: 30, ShortRead: 100}
			e.Src.L.ToClient, e.Src.L.ToServer = p, p
			e.Tgt.L.ToClient, e.Tgt.L.ToServer = p, p
		case 2:
			// back-pressure from a slow target
			p := simnet.Profile{Latency: 500, MaxDelayMs: 200, Window: 4096}
			e.Tgt.L.ToServer = p
		}
		e.Src.O0 = o0
		e.Src.Stream = stream
		e.Src.Release = rel
		e.Src.PreNL, e.Src.MidNL, e.Src.CaseMode = t.Choose(3), t.Choose(3), t.Choose(3)
		if startMode == 1 {
			plantCheckpoint(e.Tgt, ckptDB, srcAddr, e.Src.RunID, o0, 1)
			e.Src.RDB = nil
		} else {
			e.Src.RDB, _ = smallRDB(t, t.Choose(3))
		}
		e.StartTool()
		// run until everything released has had time to arrive
		end := lastRelease + 8*time.Second
		e.WaitUntil(end, 100*time.Millisecond, func() bool { return s.Now() >= end })
		if stalls {
			// injected stalls burn simulated time while ready tasks do not run: only "eventually" is judged
			e.WaitUntil(300*time.Second, 200*time.Millisecond, func() bool { return len(e.IncrLog()) >= len(want) })
		}
		diag = e.Diag()
	})
	c.Absorb(s)
	c.Log = diag
	if viol != nil {
		return viol
	}
	if e.Tool.Panicked {
		return core.Violate("go-panic", "incr", "Go panic in the tool: %s", firstLines(e.Tool.PanicMsg, 6))
	}
	if e.Tool.Exited {
		return core.Violate("abort", "err="+env.ErrClass(lc.LastPanic()), "the tool aborted: %s", lc.LastPanic())
	}
	// ---- oracle: order, exactly once, db, arguments
	got := e.IncrLog()
	site := fmt.Sprintf("resume=%v,start=%s", resume, []string{"full", "continue"}[startMode])
	for i := 0; i < len(got) || i < len(want); i++ {
		if i >= len(want) {
			return core.Violate("extra-command", kindOfArgs(got[i].Args, cmds), "the target applied %s (db %d), which is not in the filtered source stream at this position (%d expected in all)", fmtArgs(got[i].Args), got[i].DB, len(want))
		}
		if i >= len(got) {
			w := want[i]
			return core.Violate("missing-command", site+","+kindOfArgs(w.Args, cmds), "the target never applied source command #%d %s (db %d); it applied %d of %d (last release at %v, run ended at %v)", w.SrcIdx, fmtArgs(w.Args), w.DB, len(got), len(want), lastRelease, s.Now0())
		}
		g, w := got[i], want[i]
		if !argsEqual(g.Args, w.Args) {
			// classify: duplicate / reorder / filtered command forwarded / corrupted
			cl := "wrong-command"
			if i > 0 && argsEqual(g.Args, want[i-1].Args) {
				cl = "duplicate-command"
			}
			return core.Violate(cl, kindOfArgs(g.Args, cmds), "position %d: the target applied %s, the filtered source stream has %s (source command #%d)", i, fmtArgs(g.Args), fmtArgs(w.Args), w.SrcIdx)
		}
		if g.DB != w.DB {
			return core.Violate("wrong-db", site+fmt.Sprintf(",targetdb=%v", f.TargetDB != -1), "command %s applied in db %d, source db / target.db says %d", fmtArgs(g.Args), g.DB, w.DB)
		}
		// bounded time (only without injected stalls; 5 s + 1 s of network slack)
		if !stalls {
			if d := g.T - relAt[w.SrcIdx]; d > 6*time.Second {
				return core.Violate("late-command", "idle-stream", "command #%d %s was released by the source at %v but applied at %v", w.SrcIdx, fmtArgs(g.Args), relAt[w.SrcIdx], g.T)
			}
		}
	}
	for _, cm := range cmds {
		switch cm.Kind {
		case "multi":
			c.Probe("source_multi")
		case "hello":
			c.Probe("sentinel_hello")
		case "script":
			c.Probe("script_command")
		case "select":
			c.Probe("select_switch")
		}
	}
	if startMode == 1 && ckptDB != 0 {
		c.Probe("start_db_select")
	}
	if f.TargetDB != -1 {
		c.Probe("target_db_rewrite")
	}
	if len(want) < len(cmds) && (f.hasKeyFilter() || len(f.DBWhite)+len(f.DBBlack) > 0) {
		c.Probe("filtered_something")
	}
	if pacing == 1 {
		c.Probe("trickle_pacing")
	}
	c.Nontrivial = len(want) > 0
	return nil
}

// kindOfArgs names the command for the violation class.
func kindOfArgs(a [][]byte, cmds []Cmd) string {
	return "cmd=" + strings.ToLower(string(a[0]))
}

func init() {
	core.Register(&core.Prop{
		ID:         "C03",
		Run:        runC03,
		QuickRuns:  12000,
		PerProcess: 150,
		Rule: "one run = DbSyncer.Sync() between a master model and a target model: +FULLRESYNC (small RDB) or +CONTINUE from a planted checkpoint (non-zero start db), then a tape-drawn command stream " +
			"(SELECT switches over 3 dbs, single/multi-key writes, PING, MULTI/EXEC blocks, sentinel hello, script commands in any case, opinfo, keep-alive newlines) released in bursts with gaps of " +
			"0..3 s (5 s thorough) straddling the 500 ms flush ticker; x db/key/lua filters x target.db x resume x sender.count/size x network profile (segmentation, latency, back-pressure) x scheduler stalls; " +
			"oracle: the target's applied-command log equals the reference filter of the stream (order, once, db, byte-identical arguments) and every command is applied within 6 s of its release when no stall is injected; " +
			"distinct = hash of (schedule, workload); non-trivial = at least one command must be forwarded",
		Assumptions: []string{
			"PING is forwarded by the tool and ignored by the oracle; the tool's own MULTI/EXEC and checkpoint HSETs are removed from the log before comparison",
			"command names are compared case-insensitively (the tool lower-cases them), arguments byte for byte",
			"bounded time = 5 s + 1 s network slack, an order of magnitude above the tool's 500 ms ticker; not judged in runs with injected scheduler stalls",
		},
		RealVsStub: "real: dbSync (Sync, sendPSyncCmd, runIncrementalSync, pSyncPipeCopy, syncRDBFile, parseSourceCommand, sendTargetCommand, receiveTargetReply, fetchOffset), checkpoint.LoadCheckpoint, filter, pkg/redis decoder, pipe, redigo, metric; simulated: TCP, master and target (modelredis), clock, scheduling, process exit",
		ProbeNames: []string{"trickle_pacing", "source_multi", "sentinel_hello", "script_command", "select_switch", "start_db_select", "target_db_rewrite", "filtered_something"},
		FaultNames: []string{"segment_split", "latency", "short_read", "sched_stall"},
	})
}
