package props

import (
	"bytes"
	"encoding/binary"
	"fmt"
	"math"
	"os"
	"path/filepath"
	"time"

	incup "github.com/alibaba/RedisShake/pkg/libs/cupcake/rdb"
	"github.com/alibaba/RedisShake/pkg/rdb"
	"github.com/alibaba/RedisShake/pkg/simrt"
	"github.com/alibaba/RedisShake/pkg/simrt/tape"
	run "github.com/alibaba/RedisShake/redis-shake"
	utils "github.com/alibaba/RedisShake/redis-shake/common"
	conf "github.com/alibaba/RedisShake/redis-shake/configure"

	"verifsim/core"
	"verifsim/env"
	"verifsim/gen"
	"verifsim/modelredis"
	rc "verifsim/refcodec"
	"verifsim/simnet"
)

// C12 — value and RDB-file serialisation round-trips through the parser.

var nanScores = []float64{math.NaN(), math.Inf(1), math.Inf(-1), math.Copysign(0, -1), 5e-324, 1.7976931348623157e308, 0.1, 1e21, 123456789012345678}

// toToolObj converts a logical value into the tool's object types.
func toToolObj(v *rc.Value) interface{} {
	switch v.Kind {
	case rc.KString:
		return rdb.String(v.Str)
	case rc.KList:
		return rdb.List(v.List)
	case rc.KSet:
		return rdb.Set(v.Set)
	case rc.KHash:
		var h rdb.Hash
		for _, p := range v.Hash {
			h = append(h, &rdb.HashElement{Field: p.F, Value: p.V})
		}
		return h
	case rc.KZSet:
		var z rdb.ZSet
		for _, p := range v.ZSet {
			z = append(z, &rdb.ZSetElement{Member: p.M, Score: p.S})
		}
		return z
	}
	return nil
}

// fromToolObj converts a decoded tool object back (keeping element order).
func fromToolObj(o interface{}) *rc.Value {
	switch x := o.(type) {
	case rdb.String:
		return &rc.Value{Kind: rc.KString, Str: []byte(x)}
	case rdb.List:
		return &rc.Value{Kind: rc.KList, List: [][]byte(x)}
	case rdb.Set:
		return &rc.Value{Kind: rc.KSet, Set: [][]byte(x)}
	case rdb.Hash:
		v := &rc.Value{Kind: rc.KHash}
		for _, e := range x {
			v.Hash = append(v.Hash, rc.Pair{F: e.Field, V: e.Value})
		}
		return v
	case rdb.ZSet:
		v := &rc.Value{Kind: rc.KZSet}
		for _, e := range x {
			v.ZSet = append(v.ZSet, rc.ZPair{M: e.Member, S: e.Score})
		}
		return v
	}
	return nil
}

// sameOrder compares two values including the order of their elements.
func sameOrder(a, b *rc.Value) (bool, string) {
	if a == nil || b == nil || a.Kind != b.Kind {
		return false, "kind differs"
	}
	eqS := func(x, y float64) bool {
		return math.Float64bits(x) == math.Float64bits(y) || (math.IsNaN(x) && math.IsNaN(y))
	}
	switch a.Kind {
	case rc.KString:
		if !bytes.Equal(a.Str, b.Str) {
			return false, fmt.Sprintf("string %q vs %q", clipS(a.Str), clipS(b.Str))
		}
	case rc.KList, rc.KSet:
		x, y := a.List, b.List
		if a.Kind == rc.KSet {
			x, y = a.Set, b.Set
		}
		if len(x) != len(y) {
			return false, fmt.Sprintf("%d vs %d elements", len(x), len(y))
		}
		for i := range x {
			if !bytes.Equal(x[i], y[i]) {
				return false, fmt.Sprintf("element %d: %q vs %q", i, clipS(x[i]), clipS(y[i]))
			}
		}
	case rc.KHash:
		if len(a.Hash) != len(b.Hash) {
			return false, fmt.Sprintf("%d vs %d fields", len(a.Hash), len(b.Hash))
		}
		for i := range a.Hash {
			if !bytes.Equal(a.Hash[i].F, b.Hash[i].F) || !bytes.Equal(a.Hash[i].V, b.Hash[i].V) {
				return false, fmt.Sprintf("pair %d differs", i)
			}
		}
	case rc.KZSet:
		if len(a.ZSet) != len(b.ZSet) {
			return false, fmt.Sprintf("%d vs %d members", len(a.ZSet), len(b.ZSet))
		}
		for i := range a.ZSet {
			if !bytes.Equal(a.ZSet[i].M, b.ZSet[i].M) {
				return false, fmt.Sprintf("member %d differs", i)
			}
			if !eqS(a.ZSet[i].S, b.ZSet[i].S) {
				return false, fmt.Sprintf("score of member %d: %v (%#x) vs %v (%#x)", i, a.ZSet[i].S, math.Float64bits(a.ZSet[i].S), b.ZSet[i].S, math.Float64bits(b.ZSet[i].S))
			}
		}
	}
	return true, ""
}

func scoreClass(v *rc.Value) string {
	for _, z := range v.ZSet {
		switch {
		case math.IsNaN(z.S):
			return ",nan-score"
		case math.IsInf(z.S, 0):
			return ",inf-score"
		case z.S == 0 && math.Signbit(z.S):
			return ",negative-zero"
		}
	}
	return ""
}

func genLogical(t *tape.Tape) *rc.Value {
	kind := []rc.Kind{rc.KString, rc.KList, rc.KSet, rc.KHash, rc.KZSet}[t.Choose(5)]
	v := gen.ValueOf(t, kind, 17000)
	if kind == rc.KZSet && t.Choose(3) == 2 {
		for i := range v.ZSet {
			if t.Choose(2) == 1 {
				v.ZSet[i].S = nanScores[t.Choose(len(nanScores))]
			} else {
				v.ZSet[i].S = math.Float64frombits(uint64(t.Choose(1<<30))<<34 | uint64(t.Choose(1<<30))<<4 | uint64(t.Choose(16)))
			}
		}
	}
	return v
}

func decodeToolSafe(p []byte) (o interface{}, err error) {
	defer func() {
		if r := recover(); r != nil {
			err = fmt.Errorf("panic: %v", r)
		}
	}()
	return rdb.DecodeDump(p)
}

func runC12(c *core.Ctx) *core.Violation {
	t := c.T
	env.DefaultOptions(conf.TypeRestore)
	lc := env.CaptureLog("error", 1<<20)
	_ = lc
	if t.Choose(3) == 2 {
		// history: before the round trip this process has already been handed a few damaged payloads (valid trailer,
		// structure broken somewhere inside) which the decoder may reject half-way through; a rejected payload must
		// leave nothing behind that affects the decodings that follow
		if pv := genLogical(t); pv != nil {
			if p, err := rdb.EncodeDump(toToolObj(pv)); err == nil && len(p) > 12 {
				rejected := 0
				for k := 0; k < 4; k++ {
					m := append([]byte(nil), p[:len(p)-8]...)
					pos := 1 + t.Choose(len(m)-3)
					m[pos] ^= byte(1 + t.Choose(255))
					var x [8]byte
					binary.LittleEndian.PutUint64(x[:], rc.CRC64(0, m))
					if _, err := decodeToolSafe(append(m, x[:]...)); err != nil {
						rejected++
					}
				}
				if rejected > 0 {
					c.Probe("rejected_payload_before_roundtrip")
				}
			}
		}
	}
	mode := t.Choose(5)
	switch mode {
	case 0, 1:
		c.Sub = "direct-encode-decode"
		return c12Direct(c)
	case 2:
		c.Sub = "compact-payloads"
		return c12Compact(c)
	case 3:
		c.Sub = "cupcake-encoder"
		return c12Cupcake(c)
	default:
		c.Sub = "file-via-restore"
		return c12File(c)
	}
}

// (1) EncodeDump . DecodeDump, reference decoding of the payload, trailer check, ObjEntry/BinEntry
func c12Direct(c *core.Ctx) *core.Violation {
	t := c.T
	v := genLogical(t)
	c.Key = hashBytes([]byte(fmt.Sprintf("%v", v)))
	c.Sample = map[string]interface{}{"sub": c.Sub, "kind": v.Kind.String(), "elements": len(v.List) + len(v.Set) + len(v.Hash) + len(v.ZSet), "score_class": scoreClass(v)}
	site := "kind=" + v.Kind.String() + scoreClass(v)
	p, err := rdb.EncodeDump(toToolObj(v))
	if err != nil {
		return core.Violate("encode-error", site, "EncodeDump failed: %v", err)
	}
	o, err := decodeToolSafe(p)
	if err != nil {
		return core.Violate("decode-own-payload", site, "DecodeDump rejects the payload EncodeDump produced: %v", err)
	}
	if ok, why := sameOrder(v, fromToolObj(o)); !ok {
		return core.Violate("roundtrip-differs", site, "EncodeDump then DecodeDump: %s", why)
	}
	if _, _, err := utils.CheckVersionChecksum(p); err != nil {
		return core.Violate("own-payload-trailer", site, "CheckVersionChecksum rejects the payload EncodeDump produced: %v", err)
	}
	// what a Redis server materialises from the payload (NaN scores cannot be compared through a server)
	rv, _, err := rc.DecodeDump(p, 9, nil)
	if err != nil {
		return core.Violate("payload-not-redis", site, "the reference decoder (Redis semantics) rejects the payload: %v", err)
	}
	if ok, why := rc.Equal(rv, v); !ok {
		return core.Violate("payload-not-redis", site+",value", "Redis would materialise a different value from the payload: %s", why)
	}
	// BinEntry <-> ObjEntry
	be := &rdb.BinEntry{DB: uint32(t.Choose(16)), Key: []byte("k"), Type: p[0], Value: p, ExpireAt: uint64(t.Choose(2)) * 946684800123}
	oe, err := be.ObjEntry()
	if err != nil {
		return core.Violate("objentry", site, "BinEntry.ObjEntry failed: %v", err)
	}
	be2, err := oe.BinEntry()
	if err != nil {
		return core.Violate("objentry", site+",back", "ObjEntry.BinEntry failed: %v", err)
	}
	if be2.DB != be.DB || !bytes.Equal(be2.Key, be.Key) || be2.ExpireAt != be.ExpireAt {
		return core.Violate("objentry", site+",fields", "BinEntry -> ObjEntry -> BinEntry changed db/key/expiry")
	}
	o2, err := decodeToolSafe(be2.Value)
	if err != nil {
		return core.Violate("objentry", site+",decode", "payload after BinEntry -> ObjEntry -> BinEntry does not decode: %v", err)
	}
	if ok, why := sameOrder(v, fromToolObj(o2)); !ok {
		return core.Violate("objentry", site+",value", "value after BinEntry -> ObjEntry -> BinEntry: %s", why)
	}
	c.Nontrivial = true
	if scoreClass(v) != "" {
		c.Probe("special_score")
	}
	return nil
}

// (2) every payload the loader emits for compact encodings decodes to what Redis would materialise
func c12Compact(c *core.Ctx) *core.Violation {
	t := c.T
	opts := gen.RDBOpts{MaxKeys: 8, MaxDBs: 2, NoMeta: true, MaxElem: 17000, NoInfScore: false, Kinds: []rc.Kind{rc.KString, rc.KList, rc.KSet, rc.KZSet, rc.KHash}}
	file, recs, version, _ := gen.RDB(t, opts)
	c.Key = hashBytes(file)
	var types []int
	for _, r := range recs {
		types = append(types, int(r.Type))
	}
	c.Sample = map[string]interface{}{"sub": c.Sub, "rdb_version": version, "types": fmt.Sprint(types)}
	entries, err := loadEntries(file)
	if err != nil {
		return core.Violate("harness-parse", "", "loader failed on a generated file: %v", err)
	}
	for i, e := range entries {
		r := recs[i]
		site := fmt.Sprintf("rdbtype=%d", r.Type)
		o, err := decodeToolSafe(e.Value)
		if err != nil {
			return core.Violate("decode-loader-payload", site, "DecodeDump rejects the payload the loader produced for key %q: %v", clipS(r.Key), err)
		}
		got := fromToolObj(o)
		if ok, why := rc.Equal(got, r.Val); !ok {
			return core.Violate("compact-decoding-differs", site, "key %q: %s", clipS(r.Key), why)
		}
		if r.Val.Kind == rc.KList {
			if ok, why := sameOrder(got, r.Val); !ok {
				return core.Violate("compact-decoding-differs", site+",order", "key %q: %s", clipS(r.Key), why)
			}
		}
		c.Probe(fmt.Sprintf("rdbtype_%d", r.Type))
	}
	c.Nontrivial = len(entries) > 0
	return nil
}

// (3) the in-repo cupcake encoder (called by nothing in the tool) against the reference decoder
func c12Cupcake(c *core.Ctx) *core.Violation {
	t := c.T
	var buf bytes.Buffer
	enc := incup.NewEncoder(&buf)
	enc.EncodeHeader()
	type kv struct {
		db  int
		key []byte
		exp uint64
		val *rc.Value
	}
	var kvs []kv
	n := 1 + t.Choose(6)
	db := -1
	for i := 0; i < n; i++ {
		k := kv{db: t.Choose(4), key: gen.KeyName(t, i), val: genLogical(t)}
		if t.Choose(3) == 2 {
			k.exp = epochMs + uint64(t.Choose(100000))
		}
		for j := range k.val.ZSet {
			if math.IsNaN(k.val.ZSet[j].S) {
				k.val.ZSet[j].S = 1
			}
		}
		if k.db != db {
			enc.EncodeDatabase(k.db)
			db = k.db
		}
		if k.exp != 0 {
			enc.EncodeExpiry(k.exp)
		}
		var typ int
		switch k.val.Kind {
		case rc.KString:
			typ = rc.TString
			enc.EncodeType(incup.ValueType(typ))
			enc.EncodeString(k.key)
			enc.EncodeString(k.val.Str)
		case rc.KList, rc.KSet:
			items := k.val.List
			typ = rc.TList
			if k.val.Kind == rc.KSet {
				items, typ = k.val.Set, rc.TSet
			}
			enc.EncodeType(incup.ValueType(typ))
			enc.EncodeString(k.key)
			enc.EncodeLength(uint32(len(items)))
			for _, e := range items {
				enc.EncodeString(e)
			}
		case rc.KHash:
			enc.EncodeType(incup.ValueType(rc.THash))
			enc.EncodeString(k.key)
			enc.EncodeLength(uint32(len(k.val.Hash)))
			for _, p := range k.val.Hash {
				enc.EncodeString(p.F)
				enc.EncodeString(p.V)
			}
		case rc.KZSet:
			enc.EncodeType(incup.ValueType(rc.TZSet))
			enc.EncodeString(k.key)
			enc.EncodeLength(uint32(len(k.val.ZSet)))
			for _, p := range k.val.ZSet {
				enc.EncodeString(p.M)
				enc.EncodeFloat(p.S)
			}
		}
		kvs = append(kvs, k)
	}
	enc.EncodeFooter()
	file := buf.Bytes()
	c.Key = hashBytes(file)
	c.Sample = map[string]interface{}{"sub": c.Sub, "keys": n, "file_len": len(file)}
	entries, err := loadEntries(file)
	if err != nil {
		return core.Violate("cupcake-file", "load", "the loader rejects a file written by the in-repo cupcake encoder: %v", err)
	}
	if len(entries) != len(kvs) {
		return core.Violate("cupcake-file", "count", "%d keys written, %d loaded", len(kvs), len(entries))
	}
	for i, e := range entries {
		k := kvs[i]
		site := "kind=" + k.val.Kind.String()
		if int(e.DB) != k.db || !bytes.Equal(e.Key, k.key) || e.ExpireAt != k.exp {
			return core.Violate("cupcake-file", site+",meta", "key %d: db/key/expiry (%d,%q,%d) loaded as (%d,%q,%d)", i, k.db, clipS(k.key), k.exp, e.DB, clipS(e.Key), e.ExpireAt)
		}
		rv, _, err := rc.DecodeDump(e.Value, 9, nil)
		if err != nil {
			return core.Violate("cupcake-file", site+",payload", "reference decoder rejects the value of key %d: %v", i, err)
		}
		if ok, why := rc.Equal(rv, k.val); !ok {
			return core.Violate("cupcake-file", site+",value", "key %d: %s", i, why)
		}
	}
	c.Nontrivial = true
	return nil
}

// (4) a whole file written by the tool's rdb.Encoder, restored by a simulated CmdRestore.Main()
func c12File(c *core.Ctx) *core.Violation {
	t := c.T
	var buf bytes.Buffer
	enc := rdb.NewEncoder(&buf)
	if err := enc.EncodeHeader(); err != nil {
		return core.Violate("file-encode", "header", "%v", err)
	}
	type kv struct {
		db  int
		key []byte
		exp uint64
		val *rc.Value
	}
	var kvs []kv
	n := 1 + t.Choose(8)
	// database sequences: ascending, repeated, descending, interleaved
	seqs := [][]int{{0, 1, 2, 3}, {2, 2, 2, 2}, {15, 7, 3, 0}, {0, 5, 0, 5}, {3, 0, 3, 1}}
	seq := seqs[t.Choose(len(seqs))]
	for i := 0; i < n; i++ {
		k := kv{db: seq[i%len(seq)], key: []byte(fmt.Sprintf("file:key:%d", i)), val: genLogical(t)}
		if t.Choose(3) == 2 {
			k.exp = epochMs + 3600000 + uint64(t.Choose(100000))
		}
		for j := range k.val.ZSet {
			if math.IsNaN(k.val.ZSet[j].S) {
				k.val.ZSet[j].S = 2 // a server refuses NaN on the wire
			}
		}
		if err := enc.EncodeObject(uint32(k.db), k.key, k.exp, toToolObj(k.val)); err != nil {
			return core.Violate("file-encode", "object", "EncodeObject failed: %v", err)
		}
		kvs = append(kvs, k)
	}
	if err := enc.EncodeFooter(); err != nil {
		return core.Violate("file-encode", "footer", "%v", err)
	}
	file := buf.Bytes()
	in := filepath.Join(c.TmpDir, "tool-written.rdb")
	os.WriteFile(in, file, 0644)
	conf.Options.SourceRdbInput = []string{in}
	conf.Options.HttpProfile = -1
	conf.Options.Parallel = 1 + t.Choose(4)
	conf.Options.TargetAddressList = []string{tgtAddr}
	conf.Options.TargetPasswordRaw = tgtPassword
	conf.Options.TargetVersion = "5.0.7"
	conf.Options.TargetReplace = true
	if t.Choose(3) == 2 {
		conf.Options.BigKeyThreshold = 1
	}
	c.Sample = map[string]interface{}{"sub": c.Sub, "keys": n, "db_sequence": fmt.Sprint(seq), "file_len": len(file), "threshold": conf.Options.BigKeyThreshold}
	var viol *core.Violation
	var proc *simrt.Proc
	s := simrt.Run(c.TT, t, simrt.Config{MaxSteps: 3000000, MaxSimTime: time.Hour, Trace: c.Trace}, func(s *simrt.Sim) {
		net := simnet.New(s)
		tgt := modelredis.NewServer(s, net, "target", tgtAddr)
		tgt.Password = tgtPassword
		proc = s.NewProc("tool")
		done := false
		s.GoProc(proc, "restore-main", func() {
			(&run.CmdRestore{}).Main()
			done = true
		})
		for i := 0; i < 6000 && !done && s.Alive(proc); i++ {
			s.Sleep(100 * time.Millisecond)
		}
		if !done {
			viol = core.Violate("file-restore", "not-finished", "restoring a file written by the tool's encoder did not finish: %s", lc12(proc))
			return
		}
		want := map[string]bool{}
		for i, k := range kvs {
			site := fmt.Sprintf("kind=%s,dbseq=%v", k.val.Kind, seq)
			want[fmt.Sprintf("%d/%s", k.db, k.key)] = true
			got := tgt.Get(k.db, string(k.key))
			if got == nil {
				viol = core.Violate("file-roundtrip", site+",missing", "key %d %q written to db %d is not there after loading the file back", i, k.key, k.db)
				return
			}
			if ok, why := rc.Equal(got.Val, k.val); !ok {
				viol = core.Violate("file-roundtrip", site+",value", "key %q: %s", k.key, why)
				return
			}
			if k.val.Kind == rc.KList {
				if ok, why := sameOrder(got.Val, k.val); !ok {
					viol = core.Violate("file-roundtrip", site+",order", "key %q: %s", k.key, why)
					return
				}
			}
			if (k.exp == 0) != (got.ExpireAt == 0) || (k.exp != 0 && (got.ExpireAt < int64(k.exp) || got.ExpireAt > int64(k.exp)+600000)) {
				viol = core.Violate("file-roundtrip", site+",expiry", "key %q: expiry %d written, %d after loading back", k.key, k.exp, got.ExpireAt)
				return
			}
		}
		for _, db := range tgt.DBIDs() {
			for _, k := range tgt.Keys(db) {
				if !want[fmt.Sprintf("%d/%s", db, k)] {
					viol = core.Violate("file-roundtrip", "wrong-db", "key %q was loaded back into db %d, where it was not written", k, db)
					return
				}
			}
		}
	})
	c.Absorb(s)
	c.Nontrivial = true
	return viol
}

func lc12(p *simrt.Proc) string {
	if p.Panicked {
		return firstLines(p.PanicMsg, 5)
	}
	if p.Exited {
		return "the tool exited"
	}
	return "still running"
}

func init() {
	core.Register(&core.Prop{
		ID:         "C12",
		Run:        runC12,
		QuickRuns:  12000,
		PerProcess: 400,
		Rule: "one run = one of: (40%) a logical value (strings at the integer-encoding edges, leading zeros/signs/spaces, lengths at 63/64 and 16383/16384, any float64 bit pattern incl. NaN, +-Inf, -0 as score) through rdb.EncodeDump, " +
			"rdb.DecodeDump (same element order), the reference (Redis) decoder, CheckVersionChecksum and BinEntry<->ObjEntry; (20%) every payload the loader emits for a generated file in every compact encoding decoded by rdb.DecodeDump " +
			"and compared with the reference materialisation; (20%) an RDB written with the in-repo cupcake encoder read by the loader and the reference decoder; (20%) a file written by rdb.NewEncoder with ascending/repeated/descending/interleaved " +
			"database sequences restored by a simulated CmdRestore.Main() into a target model and compared key by key; distinct = hash of the input (and schedule for the simulated part); every run is non-trivial. " +
			"The first three parts are pure functions of their input: schedules and faults do not apply there (direct sub-checks, no simulator involvement)",
		Assumptions: []string{
			"NaN scores are only checked through EncodeDump/DecodeDump (no server accepts them on the wire)",
			"the in-repo pkg/libs/cupcake/rdb Encoder is called by no mode of the tool and is reachable only by direct call",
		},
		RealVsStub: "real: pkg/rdb EncodeDump/DecodeDump/Encoder/BinEntry/ObjEntry, upstream and in-repo cupcake encoder/decoder, loader, utils.CheckVersionChecksum, run.CmdRestore; simulated (file part only): TCP, target model, clock, scheduling",
		ProbeNames: []string{"rejected_payload_before_roundtrip", "special_score", "rdbtype_10", "rdbtype_11", "rdbtype_12", "rdbtype_13", "rdbtype_14", "rdbtype_9"},
	})
}
