package props

import (
	"bytes"
	"encoding/binary"
	"fmt"
	"hash"
	"os"
	"runtime/debug"
	"time"

	upcrc "github.com/cupcake/rdb/crc64"

	incrc "github.com/alibaba/RedisShake/pkg/libs/cupcake/rdb/crc64"
	"github.com/alibaba/RedisShake/pkg/rdb"
	"github.com/alibaba/RedisShake/pkg/rdb/digest"
	utils "github.com/alibaba/RedisShake/redis-shake/common"

	"github.com/alibaba/RedisShake/pkg/simrt"

	"verifsim/core"
	"verifsim/env"
	"verifsim/gen"
	rc "verifsim/refcodec"
)

// C11 — checksums are the Redis CRC-64 of the covered bytes; corruption is detected.
// Level: fault enumeration — for each generated artefact every byte position is substituted.

// loadAll parses a whole RDB with the real loader; returns the entries and the first error (incl. footer).
func loadAll(file []byte) (entries []*rdb.BinEntry, err error, panicked bool) {
	defer func() {
		if r := recover(); r != nil {
			err = fmt.Errorf("panic: %v", r)
			panicked = true
		}
	}()
	l := rdb.NewLoader(bytes.NewReader(file))
	if err = l.Header(); err != nil {
		return
	}
	for {
		var e *rdb.BinEntry
		e, err = l.NextBinEntry()
		if err != nil {
			return
		}
		if e == nil {
			break
		}
		entries = append(entries, e)
	}
	err = l.Footer()
	return
}

func decodeDumpSafe(p []byte) (err error) {
	defer func() {
		if r := recover(); r != nil {
			err = fmt.Errorf("panic: %v", r)
		}
	}()
	_, err = rdb.DecodeDump(p)
	return
}

func runC11(c *core.Ctx) *core.Violation {
	t := c.T
	env.CaptureLog("info", 1<<16) // the loader logs every aux field
	alts := 3
	if c.Thorough() {
		alts = 255
	}
	// ---- (a) digests under arbitrary chunking
	n := t.Choose(300)
	if t.Choose(8) == 7 {
		n = 4096 + t.Choose(70000)
	}
	data := t.Bytes(minI(n, 64), nil)
	for len(data) < n {
		data = append(data, data[len(data)/2]^byte(len(data)))
	}
	want := rc.CRC64(0, data)
	hs := map[string]hash.Hash64{"pkg/rdb/digest": digest.New(), "pkg/libs/cupcake/rdb/crc64": incrc.New(), "github.com/cupcake/rdb/crc64": upcrc.New()}
	for _, name := range []string{"pkg/rdb/digest", "pkg/libs/cupcake/rdb/crc64", "github.com/cupcake/rdb/crc64"} {
		h := hs[name]
		rest := data
		for len(rest) > 0 {
			k := 1 + t.Choose(len(rest))
			if t.Choose(3) == 0 {
				k = 1 + t.Choose(minI(len(rest), 9))
			}
			if t.Choose(10) == 9 {
				h.Write(nil) // empty writes must not disturb the state
			}
			h.Write(rest[:k])
			rest = rest[k:]
		}
		if h.Sum64() != want {
			return core.Violate("digest-value", name, "%s over %d bytes = %#x, CRC-64/Jones is %#x", name, len(data), h.Sum64(), want)
		}
		// Sum() must not change the running state
		before := h.Sum64()
		h.Sum(nil)
		if h.Sum64() != before {
			return core.Violate("digest-state", name, "%s: Sum() changed the state", name)
		}
	}
	if incrc.Digest(data) != want || upcrc.Digest(data) != want {
		return core.Violate("digest-value", "Digest()", "one-shot Digest differs from CRC-64/Jones")
	}
	c.Count("digest_cases", 3)
	dbg := func(f string, a ...interface{}) {
		if c.Debug != "" {
			fmt.Fprintf(os.Stderr, "C11DBG "+f+"\n", a...)
		}
	}
	dbg("digest done n=%d", n)

	// ---- (b) RDB file: intact accepted, every single-byte substitution rejected
	opts := gen.RDBOpts{MaxKeys: 4, MaxElem: 200, MinVersion: 5, FloatOpcode: true}
	file, recs, version, _ := gen.RDB(t, opts)
	limit := 1500
	if c.Thorough() {
		limit = 4096
	}
	if len(file) > limit {
		// keep exhaustive passes affordable: regenerate smaller
		opts.MaxKeys, opts.MaxElem = 2, 40
		file, recs, version, _ = gen.RDB(t, opts)
	}
	c.Sample = map[string]interface{}{"rdb_len": len(file), "rdb_version": version, "records": len(recs), "digest_len": len(data), "alternatives_per_byte": alts}
	c.Key = hashBytes(file) ^ hashBytes(data)
	c.Nontrivial = len(file) > 0 // an artefact exists from here on, whatever the verdict
	dbg("rdb generated len=%d", len(file))
	entries, err, _ := loadAll(file)
	dbg("intact loaded entries=%d", len(entries))
	if err != nil {
		return core.Violate("intact-rdb-rejected", "", "intact RDB (%d bytes, version %d) rejected: %v", len(file), version, err)
	}
	// Mutated length fields ask for up to 4 GiB. The file is at most 4 KiB and LZF expands 4 KiB to well under 1 MiB,
	// so no request above 4 MiB can be satisfied from it: the simulated allocator refuses those outright (the real
	// allocator would grant the pages and the read would then hit EOF — the same rejection, minutes later).
	defer func(old int) { simrt.AllocLimit = old }(simrt.AllocLimit)
	simrt.AllocLimit = 4 << 20
	mut := append([]byte(nil), file...)
	mutants := 0
	if len(file) <= 4096 {
		for pos := 0; pos < len(file); pos++ {
			orig := file[pos]
			for a := 0; a < alts; a++ {
				var nb byte
				if alts == 255 {
					nb = orig + byte(a+1)
				} else {
					nb = orig ^ []byte{0x01, 0x80, 0xFF}[a]
					if a == 2 && t.Choose(2) == 1 {
						nb = byte(t.Choose(256))
						if nb == orig {
							nb++
						}
					}
				}
				mut[pos] = nb
				mutants++
				t0 := time.Now()
				_, err, panicked := loadAll(mut)
				if time.Since(t0) > 3*time.Millisecond {
					// a corrupted length made the parser allocate megabytes (the simulated
					// allocator caps single allocations at 4 MiB here): hand the pages back right away
					debug.FreeOSMemory()
					c.Probe("large_allocation_mutant")
				}
				if panicked {
					c.Probe("corrupt_rdb_go_panic")
				}
				if err == nil {
					return core.Violate("corrupt-rdb-accepted", regionOf(file, recs, pos), "RDB with byte %d changed from %#x to %#x was accepted (file of %d bytes, version %d)", pos, orig, nb, len(file), version)
				}
			}
			mut[pos] = orig
		}
		// the file trailer cut short: 1..8 missing checksum bytes (8 = the stream ends right after the EOF opcode)
		if version >= 5 {
			for k := 1; k <= 8 && k < len(file); k++ {
				if _, err, _ := loadAll(file[:len(file)-k]); err == nil {
					return core.Violate("short-rdb-accepted", fmt.Sprintf("missing=%d", k), "an RDB (version %d) whose last %d checksum byte(s) are missing was accepted", version, k)
				}
			}
		}
		dbg("rdb mutants done %d", mutants)
		c.Count("rdb_mutants", mutants)
		c.Fault("rdb_byte_substituted")
		c.Count("fault_rdb_byte_substituted", mutants)
	}

	// ---- (c) DUMP payloads emitted by the loader
	pm := 0
	for i, e := range entries {
		if e.Type == 0xFA {
			continue
		}
		p := e.Value
		if i >= 3 || len(p) > 600 {
			continue
		}
		site := fmt.Sprintf("rdbtype=%d", e.Type)
		if _, _, err := utils.CheckVersionChecksum(p); err != nil {
			return core.Violate("intact-payload-rejected", "CheckVersionChecksum,"+site, "payload of key %q rejected: %v", clipS(e.Key), err)
		}
		dd := e.Type != rc.TStream && e.RealMemberCount == 0 // DecodeDump has no stream support; chunk payloads are not standalone
		if dd {
			if err := decodeDumpSafe(p); err != nil {
				return core.Violate("intact-payload-rejected", "DecodeDump,"+site, "payload of key %q rejected: %v", clipS(e.Key), err)
			}
		}
		m := append([]byte(nil), p...)
		for pos := 0; pos < len(p); pos++ {
			orig := p[pos]
			for a := 0; a < alts; a++ {
				nb := orig + byte(a+1)
				if alts != 255 {
					nb = orig ^ []byte{0x01, 0x80, 0xFF}[a]
				}
				m[pos] = nb
				pm++
				if _, _, err := utils.CheckVersionChecksum(m); err == nil {
					return core.Violate("corrupt-payload-accepted", "CheckVersionChecksum", "payload with byte %d of %d changed (%#x -> %#x) passed CheckVersionChecksum", pos, len(p), orig, nb)
				}
				if dd {
					if err := decodeDumpSafe(m); err == nil {
						return core.Violate("corrupt-payload-accepted", "DecodeDump", "payload with byte %d of %d changed (%#x -> %#x) passed DecodeDump", pos, len(p), orig, nb)
					}
				}
			}
			m[pos] = orig
		}
		// truncated trailers
		for k := 0; k < 10 && k < len(p); k++ {
			short := p[len(p)-k:]
			if k == 0 {
				short = nil
			}
			if _, _, err := utils.CheckVersionChecksum(short); err == nil {
				return core.Violate("short-payload-accepted", "CheckVersionChecksum", "a %d-byte payload passed CheckVersionChecksum", len(short))
			}
			if err := decodeDumpSafe(short); err == nil {
				return core.Violate("short-payload-accepted", "DecodeDump", "a %d-byte payload passed DecodeDump", len(short))
			}
		}
		// version above the supported one, CRC recomputed
		for _, v := range []uint16{10, 11, 255, 256, 256 + 6, 256 + 9, 512 + 6, 0x7F06, 0xFF06, 0xFFFF, uint16(10 + t.Choose(60000))} {
			hv := append([]byte(nil), p[:len(p)-10]...)
			hv = append(hv, byte(v), byte(v>>8))
			var x [8]byte
			binary.LittleEndian.PutUint64(x[:], rc.CRC64(0, hv))
			hv = append(hv, x[:]...)
			if _, _, err := utils.CheckVersionChecksum(hv); err == nil {
				return core.Violate("future-version-accepted", "CheckVersionChecksum", "payload with version field %d (valid CRC) passed CheckVersionChecksum", v)
			}
			if dd {
				if err := decodeDumpSafe(hv); err == nil {
					return core.Violate("future-version-accepted", "DecodeDump", "payload with version field %d (valid CRC) passed DecodeDump", v)
				}
			}
		}
		dbg("payload %d done len=%d", i, len(p))
		c.Probe("payload_exhausted")
	}
	c.Count("payload_mutants", pm)
	c.Nontrivial = mutants+pm > 0

	// ---- (d) several loaders at once (1 run in 4): sync and restore mode run one loader per source / input file in the
	// same process; every payload each of them emits must still carry the CRC-64 of its own bytes
	if t.Choose(4) == 3 {
		nl := 2 + t.Choose(2)
		files := [][]byte{file}
		for len(files) < nl {
			f2, _, _, _ := gen.RDB(t, gen.RDBOpts{MaxKeys: 4, MaxElem: 200, MinVersion: 5})
			files = append(files, f2)
		}
		var cv *core.Violation
		s := simrt.Run(c.TT, t, simrt.Config{MaxSteps: 2000000, MaxSimTime: time.Hour, Trace: c.Trace}, func(s *simrt.Sim) {
			p := s.NewProc("loaders")
			finished := 0
			for i := range files {
				i := i
				s.GoProc(p, fmt.Sprintf("loader-%d", i), func() {
					defer func() { finished++ }()
					es, err, _ := loadAll(files[i])
					if err != nil {
						if cv == nil {
							cv = core.Violate("intact-rdb-rejected", "concurrent-loaders", "loader %d of %d running at once rejected an intact RDB: %v", i, len(files), err)
						}
						return
					}
					for _, e := range es {
						if e.Type == 0xFA {
							continue
						}
						if _, _, err := utils.CheckVersionChecksum(e.Value); err != nil && cv == nil {
							cv = core.Violate("intact-payload-rejected", "concurrent-loaders", "loader %d of %d running at once emitted a payload for key %q whose trailer does not verify: %v", i, len(files), clipS(e.Key), err)
						}
					}
				})
			}
			for k := 0; k < 600 && finished < len(files) && s.Alive(p); k++ {
				s.Sleep(100 * time.Millisecond)
			}
			if cv == nil && p.Panicked {
				cv = core.Violate("go-panic", "concurrent-loaders", "Go panic: %s", firstLines(p.PanicMsg, 5))
			}
		})
		c.Absorb(s)
		if cv != nil {
			return cv
		}
		c.Probe("several_loaders_at_once")
	}
	return nil
}

func minI(a, b int) int {
	if a < b {
		return a
	}
	return b
}

func init() {
	core.Register(&core.Prop{
		ID:         "C11",
		Run:        runC11,
		QuickRuns:  3000,
		PerProcess: 50,
		Level:      "fault_enumeration",
		Rule: "one evaluation = one generated artefact set: (a) a byte string pushed through the three CRC-64 implementations in tape-chosen chunkings and compared with a bitwise reference; " +
			"(b) one RDB file (<= 1.5 KiB quick, <= 4 KiB thorough) loaded intact and then with EVERY byte position substituted (3 alternatives per byte quick: flip bit 0, flip bit 7, invert/random; all 255 thorough) — each mutant must be rejected; " +
			"(c) every DUMP payload the loader emitted for it: every byte substituted, trailer truncated to 0..9 bytes, version field raised with recomputed CRC — each must be rejected by CheckVersionChecksum and DecodeDump; " +
			"the per-run counters rdb_mutants/payload_mutants are the enumerated fault cases; distinct = hash of (file, digest input); non-trivial = at least one mutant was judged",
		Assumptions: []string{
			"a Go panic inside the parser on a corrupted file is counted as a rejection (the process would abort) and reported as probe corrupt_rdb_go_panic",
			"exhaustive over byte positions per artefact, sampled over artefacts",
			"rdb.DecodeDump is not applied to stream values (not supported by that decoder) and to chunk payloads (not standalone)",
		},
		RealVsStub: "real: pkg/rdb/digest, in-repo and upstream cupcake crc64, pkg/rdb loader (Footer), rdb.DecodeDump verifier, utils.CheckVersionChecksum; simulated: stored-byte corruption, truncation; no scheduler involvement (pure functions of the bytes)",
		ProbeNames: []string{"payload_exhausted", "several_loaders_at_once"},
		FaultNames: []string{"rdb_byte_substituted"},
	})
}
