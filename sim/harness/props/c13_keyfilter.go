package props

import (
	"fmt"
	"sort"
	"strconv"
	"strings"
	"time"

	"github.com/alibaba/RedisShake/pkg/simrt"
	conf "github.com/alibaba/RedisShake/redis-shake/configure"
	"github.com/alibaba/RedisShake/redis-shake/filter"

	"verifsim/core"
	"verifsim/env"
	"verifsim/modelredis"
	"verifsim/simnet"
)

// C13 — key filtering rewrites multi-key commands without corrupting them.

// keySpec is the key layout of a command as documented by Redis (COMMAND: first key, last key, step;
// positions count the command name as 0; a negative last key counts from the end).
type keySpec struct{ first, last, step int }

var redisKeySpecs = map[string]keySpec{
	"set": {1, 1, 1}, "setnx": {1, 1, 1}, "setex": {1, 1, 1}, "psetex": {1, 1, 1}, "append": {1, 1, 1},
	"del": {1, -1, 1}, "unlink": {1, -1, 1}, "setbit": {1, 1, 1}, "bitfield": {1, 1, 1}, "setrange": {1, 1, 1},
	"incr": {1, 1, 1}, "decr": {1, 1, 1}, "rpush": {1, 1, 1}, "lpush": {1, 1, 1}, "rpushx": {1, 1, 1}, "lpushx": {1, 1, 1},
	"linsert": {1, 1, 1}, "rpop": {1, 1, 1}, "lpop": {1, 1, 1}, "brpop": {1, -2, 1}, "brpoplpush": {1, 2, 1}, "blpop": {1, -2, 1},
	"lset": {1, 1, 1}, "ltrim": {1, 1, 1}, "lrem": {1, 1, 1}, "rpoplpush": {1, 2, 1}, "sadd": {1, 1, 1}, "srem": {1, 1, 1},
	"smove": {1, 2, 1}, "spop": {1, 1, 1}, "sinterstore": {1, -1, 1}, "sunionstore": {1, -1, 1}, "sdiffstore": {1, -1, 1},
	"zadd": {1, 1, 1}, "zincrby": {1, 1, 1}, "zrem": {1, 1, 1}, "zremrangebyscore": {1, 1, 1}, "zremrangebyrank": {1, 1, 1}, "zremrangebylex": {1, 1, 1},
	"hset": {1, 1, 1}, "hsetnx": {1, 1, 1}, "hmset": {1, 1, 1}, "hincrby": {1, 1, 1}, "hincrbyfloat": {1, 1, 1}, "hdel": {1, 1, 1},
	"incrby": {1, 1, 1}, "decrby": {1, 1, 1}, "incrbyfloat": {1, 1, 1}, "getset": {1, 1, 1}, "mset": {1, -1, 2}, "msetnx": {1, -1, 2},
	"move": {1, 1, 1}, "rename": {1, 2, 1}, "renamenx": {1, 2, 1}, "expire": {1, 1, 1}, "expireat": {1, 1, 1}, "pexpire": {1, 1, 1}, "pexpireat": {1, 1, 1},
	"persist": {1, 1, 1}, "restore": {1, 1, 1}, "restore-asking": {1, 1, 1}, "bitop": {2, -1, 1}, "geoadd": {1, 1, 1}, "pfadd": {1, 1, 1}, "pfmerge": {1, -1, 1},
}

// genKeyed builds one instance of cmd: args (without the name), and which positions are keys.
func genKeyed(c *core.Ctx, name string, sp keySpec, uniq *int) (args [][]byte, keyPos []int) {
	t := c.T
	mk := func(prefix string) []byte {
		*uniq++
		return []byte(fmt.Sprintf("%s%d", prefix, *uniq))
	}
	key := func() []byte {
		if t.Choose(16) == 15 {
			// a key that is exactly a configured prefix
			return [][]byte{[]byte("p:"), []byte("f:")}[t.Choose(2)]
		}
		if t.Choose(2) == 0 {
			return mk("p:key")
		}
		return mk("f:key")
	}
	// leading non-key arguments (bitop <op>)
	for i := 1; i < sp.first; i++ {
		args = append(args, []byte([]string{"AND", "OR", "XOR"}[t.Choose(3)]))
	}
	switch {
	case sp.last == sp.first: // single key + 0..6 further arguments
		keyPos = append(keyPos, len(args))
		args = append(args, key())
		n := t.Choose(7)
		for i := 0; i < n; i++ {
			args = append(args, mk("arg"))
		}
	case sp.last > sp.first: // fixed number of keys (rename, smove, rpoplpush, brpoplpush) + 0..3 further arguments
		for p := sp.first; p <= sp.last; p += sp.step {
			keyPos = append(keyPos, len(args))
			args = append(args, key())
		}
		n := t.Choose(4)
		for i := 0; i < n; i++ {
			args = append(args, mk("arg"))
		}
	default: // keys up to the |last|-th argument from the end
		nk := 1 + t.Choose(5)
		for i := 0; i < nk; i++ {
			keyPos = append(keyPos, len(args))
			args = append(args, key())
			for s := 1; s < sp.step; s++ {
				args = append(args, mk("val"))
			}
		}
		for i := 0; i < -sp.last-1; i++ {
			args = append(args, mk("opt")) // e.g. the BLPOP timeout
		}
	}
	return
}

// expectRewrite is the statement: only passing keys (with companions, original order), non-key arguments in place.
func expectRewrite(args [][]byte, keyPos []int, step int, passes func([]byte) bool) (out [][]byte, drop bool) {
	isKeyOrComp := map[int]bool{}
	kept := map[int]bool{}
	any := false
	for _, p := range keyPos {
		ok := passes(args[p])
		for s := 0; s < step; s++ {
			isKeyOrComp[p+s] = true
			kept[p+s] = ok
		}
		if ok {
			any = true
		}
	}
	if !any {
		return nil, true
	}
	for i, a := range args {
		if isKeyOrComp[i] && !kept[i] {
			continue
		}
		out = append(out, a)
	}
	return out, false
}

func runC13(c *core.Ctx) *core.Violation {
	t := c.T
	env.DefaultOptions(conf.TypeSync)
	lc := env.CaptureLog("info", 2<<20)
	conf.Options.Metric = true
	mode := t.Choose(3) // 0 whitelist, 1 blacklist, 2 no key filter
	passes := func(k []byte) bool { return strings.HasPrefix(string(k), "p:") }
	switch mode {
	case 0:
		conf.Options.FilterKeyWhitelist = []string{"p:"}
	case 1:
		conf.Options.FilterKeyBlacklist = []string{"f:"}
	default:
		passes = func([]byte) bool { return true }
	}
	// the command table is read from the tool at run time, so that added commands are covered (or reported)
	var names []string
	for n := range filter.RedisCommands {
		names = append(names, n)
	}
	sort.Strings(names)
	for _, n := range names {
		if _, ok := redisKeySpecs[n]; !ok {
			return core.Violate("unknown-table-entry", "cmd="+n, "the tool's write-command table lists %q, for which the check has no key specification", n)
		}
	}
	ncmd := 25
	if c.Thorough() {
		ncmd = 120
	}
	type inst struct {
		name   string
		args   [][]byte
		keyPos []int
		want   [][]byte
		drop   bool
	}
	twoSources := t.Choose(3) == 2
	var insts []inst
	var stream []byte
	uniq := 0
	genStream := func() ([]inst, []byte) {
		var insts []inst
		var stream []byte
		stream = append(stream, respCmd(bs("SELECT", "0")...)...)
		for i := 0; i < ncmd; i++ {
			var name string
			if t.Choose(5) == 4 {
				name = []string{"flushall", "publish", "xadd", "sort", "zunionstore"}[t.Choose(5)] // not key-addressed in the table: unchanged
			} else {
				name = names[t.Choose(len(names))]
			}
			in := inst{name: name}
			if sp, ok := redisKeySpecs[name]; ok && func() bool { _, in := filter.RedisCommands[name]; return in }() {
				in.args, in.keyPos = genKeyed(c, name, sp, &uniq)
				in.want, in.drop = expectRewrite(in.args, in.keyPos, sp.step, passes)
			} else {
				n := 1 + t.Choose(4)
				for k := 0; k < n; k++ {
					uniq++
					in.args = append(in.args, []byte(fmt.Sprintf("f:x%d", uniq)))
				}
				in.want = in.args
			}
			nm := name
			if t.Choose(3) == 2 {
				nm = strings.ToUpper(name)
			}
			stream = append(stream, respCmd(append([][]byte{[]byte(nm)}, in.args...)...)...)
			insts = append(insts, in)
		}
		return insts, stream
	}
	insts, stream = genStream()
	var insts2 []inst
	var stream2 []byte
	if twoSources {
		// a second source node synced by a second DbSyncer of the same process, at the same time
		uniq = 500000
		insts2, stream2 = genStream()
	}
	c.Sample = map[string]interface{}{"two_sources": twoSources, "mode": []string{"whitelist p:", "blacklist f:", "no key filter"}[mode], "commands": ncmd,
		"first": func() string {
			s := ""
			for i := 0; i < 3 && i < len(insts); i++ {
				s += insts[i].name + " " + fmtArgs(insts[i].args) + " ; "
			}
			return s
		}()}
	cfg := simrt.Config{MaxSteps: 2000000, MaxSimTime: time.Hour, Trace: c.Trace}
	var e *SyncEnv
	var diag []string
	s := simrt.Run(c.TT, t, cfg, func(s *simrt.Sim) {
		e = NewSyncEnv(c, s, lc)
		e.Tgt.LogOnly = func(name string) bool {
			_, keyed := redisKeySpecs[name]
			return keyed || name == "flushall" || name == "publish" || name == "xadd" || name == "sort" || name == "zunionstore"
		}
		e.Src.Stream = stream
		e.Src.RDB, _ = smallRDB(t, 0)
		nwant := 0
		for _, in := range insts {
			if !in.drop {
				nwant++
			}
		}
		if twoSources {
			m := e.AddSource()
			m.Stream = stream2
			m.RDB, _ = smallRDB(t, 0)
			if t.Choose(2) == 1 {
				// the second stream trickles so that the two parsers keep meeting
				p := simnet.Profile{Split: 600, Latency: 600, MaxDelayMs: 1 + t.Choose(30), ShortRead: 200}
				m.L.ToClient = p
				e.Src.L.ToClient = p
			}
			for _, in := range insts2 {
				if !in.drop {
					nwant++
				}
			}
		}
		e.StartTool()
		e.WaitUntil(30*time.Second, 100*time.Millisecond, func() bool {
			if !twoSources {
				return len(e.IncrLog()) >= nwant
			}
			n := 0
			_, by := e.CommandsByConn()
			for _, l := range by {
				n += len(l)
			}
			return n >= nwant
		})
		s.Sleep(1200 * time.Millisecond)
		diag = e.Diag()
	})
	c.Absorb(s)
	c.Log = diag
	if e.Tool.Panicked {
		return core.Violate("go-panic", "filter", "Go panic in the tool: %s", firstLines(e.Tool.PanicMsg, 8))
	}
	if e.Tool.Exited {
		return core.Violate("abort", "err="+env.ErrClass(lc.LastPanic()), "the tool aborted: %s", lc.LastPanic())
	}
	judge := func(got []modelredis.Applied, insts []inst) *core.Violation {
		gi := 0
		for _, in := range insts {
			site := "cmd=" + in.name
			var g *modelredis.Applied
			if gi < len(got) && strings.EqualFold(got[gi].Name(), in.name) {
				g = &got[gi]
			}
			if in.drop {
				// must not be forwarded: if the next received command has this name and mentions one of its arguments, it leaked
				var ks [][]byte
				for _, p := range in.keyPos {
					ks = append(ks, in.args[p])
				}
				if g != nil && len(ks) > 0 && mentions(g.Args[1:], ks) {
					return core.Violate("forwarded-although-no-key-passes", site, "%s %s has no passing key but the target received %s", in.name, fmtArgs(in.args), fmtArgs(g.Args))
				}
				continue
			}
			if g == nil {
				next := "nothing"
				if gi < len(got) {
					next = fmtArgs(got[gi].Args)
				}
				return core.Violate("dropped-although-key-passes", site, "%s %s has a passing key and should arrive as %s, the target received %s instead", in.name, fmtArgs(in.args), fmtArgs(in.want), next)
			}
			gi++
			if !sameArgs(g.Args[1:], in.want) {
				return core.Violate("rewritten-wrongly", site+","+classify(g.Args[1:], in.want, in.args), "%s %s should arrive as %s, the target received %s", in.name, fmtArgs(in.args), fmtArgs(in.want), fmtArgs(g.Args[1:]))
			}
			if len(in.keyPos) > 1 {
				c.Probe("multi_key_command")
			}
		}
		if gi < len(got) {
			return core.Violate("extra-command", "cmd="+got[gi].Name(), "the target received %s, which no source command explains", fmtArgs(got[gi].Args))
		}
		return nil
	}
	c.Nontrivial = true
	if !twoSources {
		return judge(e.IncrLog(), insts)
	}
	// two syncers: each writes over its own connection; every connection's commands must be exactly one source's
	// expected sequence (keys of the two sources are disjoint, so the first key argument tells whose it is)
	c.Probe("two_sources")
	ids, by := e.CommandsByConn()
	var from [2][]modelredis.Applied
	for _, id := range ids {
		l := by[id]
		who := 0
		for _, a := range l {
			hit := false
			for _, x := range a.Args[1:] {
				if i := strings.LastIndexAny(string(x), "yx"); i >= 0 { // ...key<N> / f:x<N>
					if n, err := strconv.Atoi(string(x[i+1:])); err == nil {
						if n > 500000 {
							who = 1
						}
						hit = true
						break
					}
				}
			}
			if hit {
				break
			}
		}
		from[who] = append(from[who], l...)
	}
	if v := judge(from[0], insts); v != nil {
		v.Site += ",two-sources"
		return v
	}
	if v := judge(from[1], insts2); v != nil {
		v.Site += ",two-sources"
		return v
	}
	return nil
}

func mentions(got, orig [][]byte) bool {
	for _, g := range got {
		for _, o := range orig {
			if string(g) == string(o) {
				return true
			}
		}
	}
	return false
}

func sameArgs(a, b [][]byte) bool {
	if len(a) != len(b) {
		return false
	}
	for i := range a {
		if string(a[i]) != string(b[i]) {
			return false
		}
	}
	return true
}

func classify(got, want, orig [][]byte) string {
	has := func(l [][]byte, x []byte) bool {
		for _, y := range l {
			if string(y) == string(x) {
				return true
			}
		}
		return false
	}
	for _, w := range want {
		if !has(got, w) {
			if strings.HasPrefix(string(w), "p:") {
				return "passing-key-lost"
			}
			return "argument-lost"
		}
	}
	for _, g := range got {
		if !has(want, g) {
			if strings.HasPrefix(string(g), "f:") {
				return "filtered-key-kept"
			}
			return "argument-invented"
		}
	}
	return "order-changed"
}

func init() {
	core.Register(&core.Prop{
		ID:         "C13",
		Run:        runC13,
		QuickRuns:  4000,
		PerProcess: 150,
		Rule: "one run = incremental sync with a key whitelist, a key blacklist or no key filter; the source stream carries 25 (thorough 120) commands drawn from the tool's own write-command table " +
			"(read at run time) with 1-5 keys / fixed key pairs / key-value pairs, leading sub-commands, 0-6 trailing arguments, each key independently passing or not, names in either case, plus commands outside the table; " +
			"oracle on the command received by the target model: only passing keys with their companions in original order, every non-key argument in place, dropped iff no key passes, unchanged otherwise; " +
			"key positions come from the Redis command documentation (first/last/step), not from the tool's table; distinct = hash of (schedule, workload); every run is non-trivial",
		Assumptions: []string{
			"the target model only logs these commands (answers +OK) so that odd arities do not produce error replies",
			"a command in the tool's table for which the check has no documented key specification is reported, not skipped",
		},
		RealVsStub: "real: filter.HandleFilterKeyWithCommand/getMatchKeys/FilterKey via dbSync.parseSourceCommand, sender, redigo; simulated: TCP, master/target models, clock, scheduling",
		ProbeNames: []string{"two_sources", "multi_key_command"},
	})
}
