package props

import (
	"bufio"
	"bytes"
	"encoding/binary"
	"fmt"
	"io"
	"os"
	"time"

	"github.com/alibaba/RedisShake/pkg/libs/atomic2"
	"github.com/alibaba/RedisShake/pkg/rdb"
	"github.com/alibaba/RedisShake/pkg/simrt"
	"github.com/alibaba/RedisShake/pkg/simrt/tape"
	utils "github.com/alibaba/RedisShake/redis-shake/common"

	"verifsim/core"
	"verifsim/env"
	"verifsim/gen"
	rc "verifsim/refcodec"
)

// fragReader hands out a byte stream in pieces whose sizes come from a local
// PRNG seeded by one tape draw (bulk fragmentation must not bloat the tape).
type fragReader struct {
	data  []byte
	pos   int
	state uint64
	mode  int // 0 whole, 1 tiny pieces, 2 mixed
	reads int
}

func newFragReader(t *tape.Tape, data []byte) *fragReader {
	return &fragReader{data: data, state: uint64(t.Choose(1<<16))*2654435761 + 1, mode: t.Choose(3)}
}

func (f *fragReader) next() uint64 {
	f.state ^= f.state << 13
	f.state ^= f.state >> 7
	f.state ^= f.state << 17
	return f.state
}

func (f *fragReader) Read(p []byte) (int, error) {
	if f.pos >= len(f.data) {
		return 0, io.EOF
	}
	if len(p) == 0 {
		return 0, nil
	}
	n := len(p)
	switch f.mode {
	case 1:
		n = 1 + int(f.next()%3)
	case 2:
		switch f.next() % 4 {
		case 0:
			n = 1
		case 1:
			n = 1 + int(f.next()%17)
		case 2:
			n = 1 + int(f.next()%uint64(len(p)))
		}
	}
	if n > len(p) {
		n = len(p)
	}
	if n > len(f.data)-f.pos {
		n = len(f.data) - f.pos
	}
	copy(p, f.data[f.pos:f.pos+n])
	f.pos += n
	f.reads++
	return n, nil
}

// bigHash builds a hash whose serialized form crosses the 16 MiB chunk limit.
func bigHash(t *tape.Tape) *rc.Value {
	v := &rc.Value{Kind: rc.KHash}
	switch t.Choose(3) {
	case 0:
		// few huge values
		n := 5 + t.Choose(4)
		for i := 0; i < n; i++ {
			val := make([]byte, (3+t.Choose(4))<<20)
			for k := 0; k < len(val); k += 4096 {
				val[k] = byte(i + k>>12)
			}
			v.Hash = append(v.Hash, rc.Pair{F: []byte(fmt.Sprintf("huge%d", i)), V: val})
		}
	case 1:
		// many small pairs (two chunks, possibly three)
		n := 180000 + t.Choose(200000)
		for i := 0; i < n; i++ {
			v.Hash = append(v.Hash, rc.Pair{F: []byte(fmt.Sprintf("f%07d", i)), V: []byte(fmt.Sprintf("value-%d-abcdefghijklmnopqrstuvwxyz0123456789abcdefghijklmnopqrstuvwxyz0123456789", i))})
		}
	default:
		// exactly one pair after the limit is crossed
		val := make([]byte, 17<<20)
		v.Hash = append(v.Hash, rc.Pair{F: []byte("first"), V: val}, rc.Pair{F: []byte("last"), V: []byte("x")})
		if t.Choose(2) == 1 {
			v.Hash = append(v.Hash, rc.Pair{F: []byte("last2"), V: []byte("y")})
		}
	}
	return v
}

type plainChooser struct{}

func (plainChooser) Choose(int) int { return 0 }

func runC01(c *core.Ctx) *core.Violation {
	t := c.T
	opts := gen.RDBOpts{MaxKeys: 10, FloatOpcode: true}
	if c.Thorough() {
		opts.MaxKeys = 40
	}
	big := t.Chance(30)
	var file []byte
	var recs []rc.Record
	var version int
	var items []rc.Item
	if big {
		c.Sub = "bighash"
		// a small file with one hash beyond the chunk limit in the middle
		opts.MaxKeys = 3
		opts.NoModuleAux = true
		_, _, version, items = gen.RDB(t, opts)
		it := rc.Item{Kind: "key", Key: []byte("the-big-hash"), Val: bigHash(t), Type: rc.THash}
		if t.Choose(2) == 1 {
			it.ExpireMs = 946684800000 + 1000*uint64(1+t.Choose(1000))
		}
		pos := len(items)
		if pos > 0 && t.Choose(2) == 1 {
			pos = t.Choose(pos + 1)
		}
		// never split a key from its selectdb/resizedb: insert only before a "key" item or at the end
		for pos < len(items) && items[pos].Kind != "key" {
			pos++
		}
		items = append(items[:pos], append([]rc.Item{it}, items[pos:]...)...)
		// big payloads are written with plain encodings (LZF-compressing 20 MiB buys nothing here)
		file, recs = rc.WriteRDB(version, items, plainChooser{}, true)
	} else {
		c.Sub = "small"
		file, recs, version, items = gen.RDB(t, opts)
	}
	_ = items
	truncAt := -1
	if !big && t.Chance(200) {
		truncAt = t.Choose(len(file)) // keep [0, truncAt)
		c.Sub = "truncated"
	}
	bufSize := []int{4096, 16, 64, 65536, 1 << 20}[t.Choose(5)]
	chanSize := []int{1024, 0, 1, 4}[t.Choose(4)]
	served := file
	if truncAt >= 0 {
		served = file[:truncAt]
	}
	fr := newFragReader(t, served)
	if big {
		fr.mode = 0
		bufSize = 1 << 20
	}

	var types []int
	for _, r := range recs {
		types = append(types, int(r.Type))
	}
	c.Sample = map[string]interface{}{"version": version, "file_len": len(file), "records": len(recs), "types": fmt.Sprint(types),
		"truncate_at": truncAt, "bufio": bufSize, "chan": chanSize, "frag_mode": fr.mode, "sub": c.Sub}

	if c.Debug != "" {
		os.WriteFile(c.Debug+"/file.rdb", file, 0644)
		var sb bytes.Buffer
		for _, it := range items {
			fmt.Fprintf(&sb, "%s db=%d key=%q type=%d exp=%d aux=%q=%q mod=%+v\n", it.Kind, it.DB, it.Key, it.Type, it.ExpireMs, it.AuxKey, clipS(it.AuxVal), it.ModOps)
		}
		os.WriteFile(c.Debug+"/items.txt", sb.Bytes(), 0644)
	}
	lc := env.CaptureLog("info", 1<<20)
	var got []*rdb.BinEntry
	var closed bool
	var toolProc *simrt.Proc
	cfg := simrt.Config{MaxSteps: 2000000, MaxSimTime: time.Hour, Trace: c.Trace}
	s := simrt.Run(c.TT, t, cfg, func(s *simrt.Sim) {
		toolProc = s.NewProc("tool")
		var pipe chan *rdb.BinEntry
		started := false
		s.GoProc(toolProc, "loader-owner", func() {
			var rbytes atomic2.Int64
			pipe = utils.NewRDBLoader(bufio.NewReaderSize(fr, bufSize), &rbytes, chanSize)
			started = true
		})
		for !started {
			s.Yield("wait-start")
		}
		for {
			simrt.Pre("consumer.recv")
			e, ok := <-pipe
			simrt.Post()
			if !ok {
				closed = true
				break
			}
			got = append(got, e)
		}
	})
	c.Absorb(s)
	exited := toolProc != nil && (toolProc.Exited || toolProc.Panicked)

	// ---- oracle
	if toolProc.Panicked {
		return core.Violate("go-panic", siteOfTypes(recs), "the parser raised a Go panic: %s", firstLines(toolProc.PanicMsg, 6))
	}
	idx := 0 // next expected record
	var acc []byte
	chunks := 0
	for gi, e := range got {
		if idx >= len(recs) {
			return core.Violate("extra-record", fmt.Sprintf("type=%d", e.Type), "record %d (db %d key %q type %d) is not in the file", gi, e.DB, clipS(e.Key), e.Type)
		}
		r := recs[idx]
		site := fmt.Sprintf("rdbtype=%d", r.Type)
		if r.Lua {
			if truncAt >= 0 && gi == len(got)-1 && e.Type == 0xFA && string(e.Key) == "lua" {
				// the statement covers well-formed streams only: a read error inside an aux
				// value is swallowed by the loader and surfaces at the next byte; not judged here
				idx++
				continue
			}
			if e.Type != 0xFA || string(e.Key) != "lua" || !bytes.Equal(e.Value, r.LuaBody) || e.DB != r.DB {
				return core.Violate("lua-record", "", "expected script record (db %d, %d bytes), got db=%d type=%#x key=%q value %d bytes", r.DB, len(r.LuaBody), e.DB, e.Type, clipS(e.Key), len(e.Value))
			}
			c.Probe("lua_script")
			idx++
			continue
		}
		cont := chunks > 0
		if cont {
			site += ",continuation-chunk"
		}
		if e.DB != r.DB {
			return core.Violate("record-db", site, "key %q: db %d, file says %d", clipS(r.Key), e.DB, r.DB)
		}
		if !bytes.Equal(e.Key, r.Key) {
			return core.Violate("record-key", site, "record %d: key %q, file says %q", gi, clipS(e.Key), clipS(r.Key))
		}
		if e.Type != r.Type {
			return core.Violate("record-type", site, "key %q: type %d, file says %d", clipS(r.Key), e.Type, r.Type)
		}
		if e.ExpireAt != r.ExpireAt {
			return core.Violate("record-expiry", site, "key %q: ExpireAt %d, file says %d ms", clipS(r.Key), e.ExpireAt, r.ExpireAt)
		}
		if e.IdleTime != r.Idle || e.Freq != r.Freq {
			return core.Violate("record-lru-lfu", site, "key %q: idle=%d freq=%d, file says idle=%d freq=%d", clipS(r.Key), e.IdleTime, e.Freq, r.Idle, r.Freq)
		}
		// payload: type byte, value bytes, version (<= 9), CRC-64
		p := e.Value
		if len(p) < 11 || p[0] != r.Type {
			return core.Violate("payload-shape", site, "key %q: payload of %d bytes, first byte %#x", clipS(r.Key), len(p), first(p))
		}
		if v := binary.LittleEndian.Uint16(p[len(p)-10:]); v == 0 || v > 9 {
			return core.Violate("payload-version", site, "key %q: DUMP payload version %d", clipS(r.Key), v)
		}
		if rc.CRC64(0, p[:len(p)-8]) != binary.LittleEndian.Uint64(p[len(p)-8:]) {
			return core.Violate("payload-crc", site, "key %q: DUMP payload checksum is not the CRC-64 of the payload", clipS(r.Key))
		}
		body := p[1 : len(p)-10]
		want := file[r.ValStart:r.ValEnd]
		if len(acc)+len(body) > len(want) || !bytes.Equal(body, want[len(acc):len(acc)+len(body)]) {
			return core.Violate("payload-bytes", site, "key %q: value bytes differ from the file (chunk %d, %d+%d of %d bytes)", clipS(r.Key), chunks, len(acc), len(body), len(want))
		}
		if len(acc)+len(body) < len(want) {
			// a partial delivery is only legal for a plain hash beyond the chunk limit, and must hold whole pairs
			if r.Type != rc.THash {
				return core.Violate("payload-bytes", site+",short", "key %q: only %d of %d value bytes delivered", clipS(r.Key), len(body), len(want))
			}
		}
		if r.Type == rc.THash && (len(acc) > 0 || len(body) < len(want)) {
			if !wholePairs(body, len(acc) == 0) {
				return core.Violate("chunk-pairs", site, "key %q: chunk %d does not consist of whole field/value pairs", clipS(r.Key), chunks)
			}
			c.Probe("chunked_hash")
		}
		acc = append(acc, body...)
		chunks++
		if len(acc) == len(want) {
			idx++
			acc = nil
			chunks = 0
		}
	}
	if truncAt >= 0 {
		c.Fault("stream_truncated")
		// a truncated file must be reported as an error (the loader aborts), records so far are a prefix
		if !exited {
			return core.Violate("truncation-accepted", fmt.Sprintf("cut-in=%s", regionOf(file, recs, truncAt)), "file cut at byte %d of %d parsed to completion (%d records, closed=%v)", truncAt, len(file), len(got), closed)
		}
		c.Nontrivial = true
		return nil
	}
	if exited {
		return core.Violate("abort-on-wellformed", siteOfAbort(lc, recs, idx), "the parser aborted on a well-formed file after %d of %d records: %s", idx, len(recs), lastPanic(lc))
	}
	if !closed || s.EndReason != "stop" {
		return core.Violate("no-termination", s.EndReason, "parser did not finish: %v", s.TaskStates())
	}
	if idx != len(recs) || chunks != 0 {
		return core.Violate("missing-record", "", "only %d of %d records delivered", idx, len(recs))
	}
	c.Nontrivial = len(recs) > 0
	for _, r := range recs {
		switch {
		case r.Type == rc.TStream:
			c.Probe("stream")
		case r.Type == rc.TQuicklist:
			c.Probe("quicklist")
		case r.Type == rc.THashZipmap:
			c.Probe("zipmap")
		case r.Type == rc.TSetIntset:
			c.Probe("intset")
		}
	}
	for _, it := range items {
		if it.Kind == "moduleaux" {
			c.Probe("module_aux")
			for _, op := range it.ModOps {
				if op.Op == 3 {
					c.Probe("module_aux_float")
				}
				if op.U > 1<<32 {
					c.Probe("len64")
				}
			}
		}
	}
	return nil
}

func wholePairs(body []byte, first bool) bool {
	// parse with the reference reader: [len] (string string)*
	v := append([]byte(nil), body...)
	if first {
		// prefix the pair stream with nothing: decode length then pairs until the end
		n := skipLen(v)
		if n < 0 {
			return false
		}
		v = v[n:]
	}
	for len(v) > 0 {
		for k := 0; k < 2; k++ {
			n := skipString(v)
			if n < 0 {
				return false
			}
			v = v[n:]
		}
	}
	return true
}

func skipLen(b []byte) int {
	if len(b) == 0 {
		return -1
	}
	switch b[0] >> 6 {
	case 0:
		return 1
	case 1:
		return 2
	case 2:
		if b[0] == 0x80 {
			return 5
		}
		if b[0] == 0x81 {
			return 9
		}
	}
	return -1
}

func skipString(b []byte) int {
	if len(b) == 0 {
		return -1
	}
	var n, l int
	switch b[0] >> 6 {
	case 0:
		n, l = 1, int(b[0]&0x3f)
	case 1:
		if len(b) < 2 {
			return -1
		}
		n, l = 2, int(b[0]&0x3f)<<8|int(b[1])
	case 2:
		if b[0] != 0x80 || len(b) < 5 {
			return -1
		}
		n, l = 5, int(binary.BigEndian.Uint32(b[1:]))
	default:
		switch b[0] & 0x3f {
		case 0:
			n, l = 1, 1
		case 1:
			n, l = 1, 2
		case 2:
			n, l = 1, 4
		default:
			return -1 // LZF inside big hashes is not generated
		}
	}
	if n+l > len(b) {
		return -1
	}
	return n + l
}

func first(b []byte) byte {
	if len(b) == 0 {
		return 0
	}
	return b[0]
}

func clipS(b []byte) string {
	if len(b) > 32 {
		return string(b[:32]) + "..."
	}
	return string(b)
}

func firstLines(s string, n int) string {
	out := ""
	for i, l := range bytes.Split([]byte(s), []byte("\n")) {
		if i >= n {
			break
		}
		out += string(l) + " / "
	}
	return out
}

func lastPanic(lc *env.LogCapture) string {
	return lc.LastPanic()
}

func siteOfTypes(recs []rc.Record) string {
	seen := map[byte]bool{}
	var ts []byte
	for _, r := range recs {
		if !seen[r.Type] {
			seen[r.Type] = true
			ts = append(ts, r.Type)
		}
	}
	return fmt.Sprintf("types=%v", ts)
}

// siteOfAbort classifies an abort by the error text (digits removed) and by
// whether the parser got past the metadata in front of the first key.
func siteOfAbort(lc *env.LogCapture, recs []rc.Record, idx int) string {
	return "err=" + env.ErrClass(lc.LastPanic())
}

// regionOf classifies a byte offset of the file: inside the value of which type, or metadata.
func regionOf(file []byte, recs []rc.Record, at int) string {
	for _, r := range recs {
		if !r.Lua && at >= r.ValStart && at < r.ValEnd {
			return fmt.Sprintf("value-of-type-%d", r.Type)
		}
	}
	if at >= len(file)-9 {
		return "footer"
	}
	return "metadata"
}

func init() {
	core.Register(&core.Prop{
		ID:         "C01",
		Run:        runC01,
		QuickRuns:  6000,
		PerProcess: 300,
		Rule: "one run = a tape-drawn RDB file (version 1-9, 1-4 databases in any order, keys of every type/encoding legal for the version, expiries, idle/freq, aux, " +
			"resizedb, module-aux with every sub-opcode, canonical or widened length forms, LZF/int string encodings; 3% of runs carry a hash beyond the 16 MiB chunk limit) " +
			"served through a fragmenting reader and bufio (16 B - 1 MiB) to utils.NewRDBLoader, whose producer goroutine is interleaved with the consumer by the scheduler; " +
			"20% of small runs truncate the stream at a tape-chosen byte; distinct = hash of (schedule, file); non-trivial = at least one key record (or a truncation)",
		Assumptions: []string{
			"the reference RDB writer (refcodec) follows the Redis 5 rdb.c layout; value payloads are compared byte-for-byte with the file",
			"zipmap items >= 254 bytes and ziplists with > 65534 entries are not generated",
			"a valid DUMP trailer is: version in 1..9 (accepted by a Redis 5 target) + CRC-64 of everything before it",
		},
		RealVsStub: "real: pkg/rdb loader/reader, pkg/rdb/digest, utils.NewRDBLoader, stats.CountReader, bufio; simulated: input stream (fragmenting reader, truncation), scheduling, process exit",
		ProbeNames: []string{"chunked_hash", "lua_script", "stream", "quicklist", "zipmap", "intset", "module_aux", "module_aux_float", "len64"},
		FaultNames: []string{"stream_truncated"},
	})
}
