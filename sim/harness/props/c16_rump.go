package props

import (
	"fmt"
	"os"
	"path/filepath"
	"strconv"
	"strings"
	"time"

	"github.com/alibaba/RedisShake/pkg/simrt"
	"github.com/alibaba/RedisShake/pkg/simrt/tape"
	run "github.com/alibaba/RedisShake/redis-shake"
	conf "github.com/alibaba/RedisShake/redis-shake/configure"

	"verifsim/core"
	"verifsim/env"
	"verifsim/gen"
	"verifsim/modelredis"
	rc "verifsim/refcodec"
	"verifsim/simnet"
)

// C16 — scan-based migration (rump) copies every scanned key faithfully.

type rumpKey struct {
	db      int
	key     string
	val     *rc.Value
	exp     int64
	dumpLen int
	gone    string // "" or the moment it vanished: before-dump | before-pttl
	inFile  bool
}

// plantSource fills the source model from generated RDB records (with their original payloads).
func plantSource(t *tape.Tape, src *modelredis.Server, maxKeys int, singleDB bool) []*rumpKey {
	opts := gen.RDBOpts{MaxKeys: maxKeys, MaxDBs: 4, NoMeta: true, MinVersion: 9, MaxElem: 300, NoIdleFreq: true, FutureOnly: true,
		Kinds: []rc.Kind{rc.KString, rc.KList, rc.KSet, rc.KZSet, rc.KHash}}
	if singleDB {
		opts.MaxDBs = 1
	}
	file, recs, _, _ := gen.RDB(t, opts)
	var out []*rumpKey
	for _, r := range recs {
		if r.Lua {
			continue
		}
		db := int(r.DB)
		if db > 15 {
			db = db % 16
		}
		payload := rc.DumpPayload(int(r.Type), file[r.ValStart:r.ValEnd], 9)
		e := &modelredis.Entry{Val: cloneValue(r.Val), Dump: payload, ExpireAt: int64(r.ExpireAt)}
		src.Plant(db, string(r.Key), e)
		out = append(out, &rumpKey{db: db, key: string(r.Key), val: r.Val, exp: int64(r.ExpireAt), dumpLen: len(payload)})
	}
	return out
}

func runC16(c *core.Ctx) *core.Violation {
	t := c.T
	env.DefaultOptions(conf.TypeRump)
	lc := env.CaptureLog("info", 4<<20)
	f := FilterCfg{TargetDB: -1}
	switch t.Choose(5) {
	case 1:
		f.DBWhite = []string{strconv.Itoa(t.Choose(4))}
	case 2:
		f.DBBlack = []string{strconv.Itoa(t.Choose(4))}
	}
	switch t.Choose(5) {
	case 1:
		f.KeyWhite = []string{"key:", "{tag"}
	case 2:
		f.KeyBlack = []string{"key:1", "k"}
	}
	if t.Choose(4) == 3 {
		f.TargetDB = t.Choose(5)
	}
	conf.Options.FilterDBWhitelist, conf.Options.FilterDBBlacklist = f.DBWhite, f.DBBlack
	conf.Options.FilterKeyWhitelist, conf.Options.FilterKeyBlacklist = f.KeyWhite, f.KeyBlack
	conf.Options.TargetDB = f.TargetDB
	conf.Options.KeyExists = []string{"none", "rewrite"}[t.Choose(2)]
	conf.Options.ScanKeyNumber = uint32([]int{100, 1, 2, 3, 10}[t.Choose(5)])
	conf.Options.Qps = []int{500000, 1000, 37, 3}[t.Choose(4)]
	conf.Options.SourceAddressList = []string{srcAddr}
	conf.Options.TargetAddressList = []string{tgtAddr}
	conf.Options.SourcePasswordRaw = srcPassword
	conf.Options.TargetPasswordRaw = tgtPassword
	conf.Options.TargetVersion = "5.0.7"
	conf.Options.TargetReplace = true
	keyFile := t.Choose(6) == 5
	maxKeys := 20
	if c.Thorough() {
		maxKeys = 60
	}
	cfg := simrt.Config{MaxSteps: 4000000, MaxSimTime: 3 * time.Hour, Trace: c.Trace}
	if t.Choose(2) == 1 {
		cfg.Sticky = 300 + t.Choose(650)
	}
	netMode := t.Choose(3)
	mutate := t.Choose(3) == 2
	slowSource := t.Choose(3) == 2
	thresholdMode := t.Choose(4)

	var viol *core.Violation
	var keys []*rumpKey
	var proc *simrt.Proc
	var src, tgt *modelredis.Server
	done := false
	var doneAt, lastScanAt time.Duration
	s := simrt.Run(c.TT, t, cfg, func(s *simrt.Sim) {
		net := simnet.New(s)
		src = modelredis.NewServer(s, net, "source", srcAddr)
		src.Password = srcPassword
		tgt = modelredis.NewServer(s, net, "target", tgtAddr)
		tgt.Password = tgtPassword
		if netMode >= 1 {
			p := simnet.Profile{Split: 300, Latency: 500, MaxDelayMs: 1 + t.Choose(60), ShortRead: 100}
			src.L.ToClient, src.L.ToServer = p, p
			if netMode == 2 {
				tgt.L.ToClient, tgt.L.ToServer = p, p
			}
		}
		keys = plantSource(t, src, maxKeys, keyFile)
		// big-key threshold around the payload sizes
		if len(keys) > 0 {
			l := uint64(keys[t.Choose(len(keys))].dumpLen)
			switch thresholdMode {
			case 1:
				conf.Options.BigKeyThreshold = l
			case 2:
				conf.Options.BigKeyThreshold = l + 1
			case 3:
				conf.Options.BigKeyThreshold = 1
			}
		}
		// scan adversary
		src.ScanOrder = func(n int) []int { return t.Perm(n) }
		src.ScanPage = func(count int) int {
			switch t.Choose(6) {
			case 0:
				return count
			case 1:
				s.Fault("scan_empty_page")
				return 0
			case 2:
				return 1
			case 3:
				return 2 * count
			default:
				return 1 + t.Choose(2*count)
			}
		}
		// mutator: keys vanish between SCAN, DUMP and PTTL
		byName := map[string]*rumpKey{}
		for _, k := range keys {
			byName[fmt.Sprintf("%d/%s", k.db, k.key)] = k
		}
		src.Before = func(cn *modelredis.ConnState, args [][]byte) {
			name := strings.ToLower(string(args[0]))
			if name == "scan" {
				if slowSource && t.Choose(3) == 0 {
					// a slow source: this SCAN takes 0.5-3 s (the rate limiter sees seconds with fewer keys than qps)
					s.Fault("source_stall")
					s.Sleep(time.Duration(500+t.Choose(2500)) * time.Millisecond)
				}
				lastScanAt = s.Now()
			}
			if !mutate || len(args) != 2 || (name != "dump" && name != "pttl") {
				return
			}
			k := byName[fmt.Sprintf("%d/%s", cn.DB, args[1])]
			if k == nil || k.gone != "" || t.Choose(8) != 7 {
				return
			}
			if name == "dump" {
				k.gone = "before-dump"
			} else {
				k.gone = "before-pttl"
			}
			if t.Choose(2) == 0 {
				delete(src.DBs[cn.DB], k.key)
				s.Fault("key_deleted_mid_scan")
			} else {
				src.DBs[cn.DB][k.key].ExpireAt = time.Now().UnixNano()/1e6 - 1 // expires now
				s.Fault("key_expired_mid_scan")
			}
		}
		if keyFile {
			// key-file driven scan: listed keys (some absent from the source), any number of lines
			path := filepath.Join(c.TmpDir, "keys.txt")
			var lines []string
			for _, k := range keys {
				if t.Choose(4) != 3 && !strings.ContainsAny(k.key, "\r\n") {
					// (a line-based key file cannot name keys containing line breaks)
					lines = append(lines, k.key)
					k.inFile = true
				}
			}
			extra := t.Choose(3)
			for i := 0; i < extra; i++ {
				lines = append(lines, fmt.Sprintf("absent-key-%d", i))
			}
			p := t.Perm(len(lines))
			var sb strings.Builder
			for _, i := range p {
				sb.WriteString(lines[i])
				sb.WriteByte('\n')
			}
			os.WriteFile(path, []byte(sb.String()), 0644)
			conf.Options.ScanKeyFile = path
		}
		// a pre-existing key on the target (only under rewrite; 'none' makes the busy key fatal by design)
		var pre *rumpKey
		if conf.Options.KeyExists == "rewrite" && len(keys) > 0 && t.Choose(3) == 2 {
			pre = keys[t.Choose(len(keys))]
			if !f.dbPasses(pre.db) || !f.KeyPasses([]byte(pre.key)) || (keyFile && !pre.inFile) {
				pre = keys[0]
				if !f.dbPasses(pre.db) || !f.KeyPasses([]byte(pre.key)) || (keyFile && !pre.inFile) {
					pre = &rumpKey{dumpLen: 1 << 40} // nothing suitable: plant nothing
				}
			}
			db := pre.db
			if f.TargetDB != -1 {
				db = f.TargetDB
			}
			if uint64(pre.dumpLen) < conf.Options.BigKeyThreshold { // pre-existing big keys are outside the statement
				tgt.Plant(db, pre.key, &modelredis.Entry{Val: &rc.Value{Kind: rc.KString, Str: []byte("old")}})
			}
		}
		c.Sample = map[string]interface{}{"keys": len(keys), "filters": fmt.Sprintf("dbW=%v dbB=%v keyW=%v keyB=%v", f.DBWhite, f.DBBlack, f.KeyWhite, f.KeyBlack), "target_db": f.TargetDB,
			"key_exists": conf.Options.KeyExists, "scan_key_number": conf.Options.ScanKeyNumber, "qps": conf.Options.Qps, "threshold": conf.Options.BigKeyThreshold, "key_file": keyFile, "mutator": mutate, "slow_source": slowSource, "net_mode": netMode}

		proc = s.NewProc("tool")
		start := s.Now()
		var toolEnds []*simnet.Conn
		tgt.L.OnAccept = func(cl, sv *simnet.Conn) { toolEnds = append(toolEnds, cl) }
		unread := 0
		s.GoProc(proc, "rump-main", func() {
			(&run.CmdRump{}).Main()
			// at the moment Main returns every reply of the target must have been read by the tool: a reply still
			// unread means the tool reported completion without having seen the outcome of a command it sent
			for _, cl := range toolEnds {
				unread += cl.Unread()
			}
			done = true
			doneAt = s.Now()
		})
		for i := 0; i < 72000 && !done && s.Alive(proc); i++ {
			s.Sleep(50 * time.Millisecond)
		}
		elapsed := (s.Now() - start).Milliseconds()
		if proc.Panicked {
			viol = core.Violate("go-panic", "rump", "Go panic in rump mode: %s", firstLines(proc.PanicMsg, 6))
			return
		}
		if proc.Exited {
			viol = core.Violate("abort", "rump,err="+env.ErrClass(lc.LastPanic()), "rump aborted: %s", lc.LastPanic())
			return
		}
		if !done {
			viol = core.Violate("no-termination", "rump", "CmdRump.Main did not return within an hour of simulated time: %v", s.TaskStates())
			return
		}
		if unread > 0 {
			viol = core.Violate("returned-before-confirmed", "rump", "CmdRump.Main returned while %d byte(s) of target replies were still unread: it finished without seeing the outcome of its last commands", unread)
			return
		}
		if d := doneAt - lastScanAt; d > 10*time.Second+time.Duration(len(keys))*200*time.Millisecond+time.Duration(len(keys)*1000/conf.Options.Qps+1)*time.Second {
			viol = core.Violate("late-termination", "", "the final scan reply was at %v but Main returned at %v", lastScanAt, doneAt)
			return
		}
		// ---- oracle (inside the bubble: TTLs are on the simulated clock)
		want := map[string]bool{}
		for _, k := range keys {
			if keyFile && !k.inFile {
				continue
			}
			if !f.dbPasses(k.db) || !f.KeyPasses([]byte(k.key)) {
				if f.hasKeyFilter() || !f.dbPasses(k.db) {
					continue
				}
			}
			db := k.db
			if f.TargetDB != -1 {
				db = f.TargetDB
			}
			id := fmt.Sprintf("%d/%s", db, k.key)
			site := fmt.Sprintf("rdbtype-kind=%s,big=%v", k.val.Kind, uint64(k.dumpLen) >= conf.Options.BigKeyThreshold)
			got := tgt.Get(db, k.key)
			if k.gone != "" {
				if pre == k {
					want[id] = true
					continue
				}
				if got != nil {
					viol = core.Violate("vanished-key-copied", k.gone, "key %q vanished from the source %s but is on the target", clipS([]byte(k.key)), k.gone)
					return
				}
				c.Probe("vanished_key_skipped")
				continue
			}
			want[id] = true
			if got == nil {
				viol = core.Violate("key-missing", site, "key %q (source db %d) passes the filters and exists but is not in db %d of the target", clipS([]byte(k.key)), k.db, db)
				return
			}
			if ok, why := rc.Equal(got.Val, k.val); !ok {
				viol = core.Violate("key-differs", site, "key %q: %s", clipS([]byte(k.key)), why)
				return
			}
			if k.exp == 0 && got.ExpireAt != 0 {
				viol = core.Violate("ttl", site+",unexpected", "key %q has no expiry on the source but expires at %d on the target", clipS([]byte(k.key)), got.ExpireAt)
				return
			}
			if k.exp != 0 && (got.ExpireAt < k.exp || got.ExpireAt > k.exp+elapsed+5) {
				viol = core.Violate("ttl", site+",wrong", "key %q: target expiry %d, source %d (run took %d ms)", clipS([]byte(k.key)), got.ExpireAt, k.exp, elapsed)
				return
			}
			if uint64(k.dumpLen) >= conf.Options.BigKeyThreshold {
				c.Probe("big_key_route")
			}
		}
		for _, db := range tgt.DBIDs() {
			for _, k := range tgt.Keys(db) {
				if !want[fmt.Sprintf("%d/%s", db, k)] {
					viol = core.Violate("key-unexpected", "", "key %q is in db %d of the target: filtered, vanished, or in the wrong database", clipS([]byte(k)), db)
					return
				}
			}
		}
	})
	c.Absorb(s)
	c.Log = lc.Tail(40)
	if viol != nil && src != nil && tgt != nil {
		c.Log = append(c.Log, "---- source commands")
		for i, a := range src.Applied {
			if i < 300 {
				c.Log = append(c.Log, fmt.Sprintf("%4d t=%v %s -> %s", i, a.T, clipS([]byte(a.String())), clipS([]byte(strings.TrimSpace(a.Reply)))))
			}
		}
		c.Log = append(c.Log, "---- target commands")
		for i, a := range tgt.Applied {
			if i < 300 {
				c.Log = append(c.Log, fmt.Sprintf("%4d t=%v %s -> %s", i, a.T, clipS([]byte(a.String())), clipS([]byte(strings.TrimSpace(a.Reply)))))
			}
		}
	}
	if keyFile {
		c.Probe("key_file_scan")
	}
	c.Nontrivial = len(keys) > 0
	return viol
}

func init() {
	core.Register(&core.Prop{
		ID:         "C16",
		Run:        runC16,
		QuickRuns:  5000,
		PerProcess: 100,
		Rule: "one run = CmdRump.Main() from a source model (up to 20 (60 thorough) keys of all classic types/encodings with their original DUMP payloads over up to 4 dbs, some with TTL) to a target model; " +
			"the source answers SCAN adversarially (shuffled order, pages of 0..2xCOUNT keys, opaque non-zero cursors) and a mutator deletes or expires keys between SCAN, DUMP and PTTL; x scan.key_number {1,2,3,10,100} " +
			"x big_key_threshold around a payload size x key_exists {none,rewrite} x target.db x db/key filters x qps {3,37,1000,500000} x slow source (SCANs that take 0.5-3 s) x key-file scans with any number of lines incl. absent keys x per-link latency; " +
			"oracle (on the simulated clock): every surviving, passing key is on the target in the same db (or target.db) with the source value and remaining TTL, vanished keys are skipped, nothing else is copied, Main returns; " +
			"distinct = hash of (schedule, workload); non-trivial = the source has keys",
		Assumptions: []string{
			"not generated (outside the statement): duplicate keys from SCAN, keys created during the scan, pre-existing big keys on the target, busy keys under key_exists=none",
			"termination bound: 10 s + 0.2 s per key + the QoS budget after the final SCAN reply",
			"key-file scans use a single source database",
		},
		RealVsStub: "real: run.CmdRump (fetcher/writer/receiver), scanner.NormalScanner/KeyFileScanner (real key file), utils.RestoreBigkey/restoreBigRdbEntry, utils.StartQoS, filter, redigo; simulated: TCP, source (scan adversary + mutator) and target models, clock, scheduling",
		ProbeNames: []string{"vanished_key_skipped", "big_key_route", "key_file_scan"},
		FaultNames: []string{"scan_empty_page", "key_deleted_mid_scan", "key_expired_mid_scan", "source_stall", "latency", "segment_split"},
	})
}
