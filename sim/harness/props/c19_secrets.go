package props

import (
	"encoding/base64"
	"encoding/hex"
	"encoding/json"
	"fmt"
	"os"
	"path/filepath"
	"strings"
	"time"

	"github.com/alibaba/RedisShake/pkg/simrt"
	run "github.com/alibaba/RedisShake/redis-shake"
	"github.com/alibaba/RedisShake/redis-shake/checkpoint"
	conf "github.com/alibaba/RedisShake/redis-shake/configure"
	"github.com/alibaba/RedisShake/redis-shake/dbSync/slot"
	"github.com/alibaba/RedisShake/redis-shake/dbSync/slotsupervisor"
	"github.com/alibaba/RedisShake/redis-shake/metric"

	"verifsim/core"
	"verifsim/env"
	"verifsim/modelredis"
	rc "verifsim/refcodec"
	"verifsim/simnet"
)

// C19 — configured passwords never appear in logs or status output.

func sentinel(c *core.Ctx, tag string) string {
	const abc = "ABCDEFGHJKLMNPQRSTUVWXYZabcdefghijkmnopqrstuvwxyz23456789"
	b := []byte(tag)
	for i := 0; i < 14; i++ {
		b = append(b, abc[c.T.Choose(len(abc))])
	}
	return string(b)
}

// leak looks for a secret (raw, quoted, hex, base64) in text.
func leak(text, secret string) string {
	forms := map[string]string{
		"raw":    secret,
		"hex":    hex.EncodeToString([]byte(secret)),
		"base64": base64.StdEncoding.EncodeToString([]byte(secret)),
	}
	for _, name := range []string{"raw", "hex", "base64"} {
		if i := strings.Index(text, forms[name]); i >= 0 {
			from := i - 80
			if from < 0 {
				from = 0
			}
			to := i + len(forms[name]) + 30
			if to > len(text) {
				to = len(text)
			}
			return name + ": ..." + strings.Replace(text[from:to], "\n", "\\n", -1) + "..."
		}
	}
	return ""
}

// lineClass reduces the leaking log line to a stable class (its text up to the secret, digits removed).
func lineClass(text, secret string) string {
	i := strings.Index(text, secret)
	if i < 0 {
		return "encoded"
	}
	from := strings.LastIndexByte(text[:i], '\n') + 1
	s := text[from:i]
	var b strings.Builder
	for _, r := range s {
		if (r >= '0' && r <= '9') || r == '&' {
			continue
		}
		b.WriteRune(r)
	}
	out := strings.Join(strings.Fields(b.String()), " ")
	if len(out) > 48 {
		out = out[:48]
	}
	return out
}

func runC19(c *core.Ctx) *core.Violation {
	t := c.T
	oldS, oldT := srcPassword, tgtPassword
	defer func() { srcPassword, tgtPassword = oldS, oldT }()
	srcPassword = sentinel(c, "SRC")
	tgtPassword = sentinel(c, "TGT")
	unprotectedSource := t.Choose(4) == 3 // a source without a password: only the target secret exists
	if unprotectedSource {
		srcPassword = ""
	}
	level := []string{"debug", "info", "warn", "error"}[t.Choose(4)]
	scenario := []string{"sync", "sync-target-cut", "sync-source-cut", "restore", "rump", "checkpoint", "supervisor", "dump", "decode"}[t.Choose(9)]
	c.Sub = scenario
	c.Sample = map[string]interface{}{"scenario": scenario, "log_level": level, "unprotected_source": unprotectedSource}
	var status []string // status documents rendered as text
	cfg := simrt.Config{MaxSteps: 3000000, MaxSimTime: time.Hour, Trace: c.Trace}
	var lc *env.LogCapture
	switch scenario {
	case "sync", "sync-target-cut", "sync-source-cut":
		env.DefaultOptions(conf.TypeSync)
		lc = env.CaptureLog(level, 8<<20)
		conf.Options.LogLevel = level
		conf.Options.ResumeFromBreakPoint = t.Choose(2) == 1
		conf.Options.KeyExists = "rewrite"
		conf.Options.TargetReplace = true
		cmds, stream := GenStream(t, StreamOpts{MaxCmds: 15, DBs: 2, StartDB: -1})
		_ = cmds
		var rel []modelredis.Release
		rel = append(rel, modelredis.Release{Upto: len(stream) / 2, At: time.Second}, modelredis.Release{Upto: len(stream), At: 4 * time.Second})
		s := simrt.Run(c.TT, t, cfg, func(s *simrt.Sim) {
			e := NewSyncEnv(c, s, lc)
			e.Src.RDB, _ = smallRDB(t, 2)
			e.Src.Stream, e.Src.Release = stream, rel
			switch t.Choose(8) {
			case 6:
				e.Tgt.AuthUnknown = true // the target rejects AUTH and echoes its arguments
				c.Probe("auth_rejected_with_echo")
			case 7:
				if srcPassword != "" {
					e.Src.AuthUnknown = true
					c.Probe("auth_rejected_with_echo")
				}
			}
			cmd := &run.CmdSync{}
			metric.CreateMetric(cmd)
			start := func() {
				p := s.NewProc(fmt.Sprintf("tool#%d", len(e.Tools)))
				e.Tools = append(e.Tools, p)
				e.Tool = p
				s.GoProc(p, "cmdsync-main", func() { cmd.Main() })
			}
			start()
			e.WaitUntil(3*time.Second, 100*time.Millisecond, func() bool { return false })
			snapshot := func() {
				if b, err := json.Marshal(conf.GetSafeOptions()); err == nil {
					status = append(status, "GetSafeOptions: "+string(b))
				}
				status = append(status, fmt.Sprintf("GetDetailedInfo: %v", cmd.GetDetailedInfo()))
				if b, err := json.Marshal(metric.NewMetricRest()); err == nil {
					status = append(status, "NewMetricRest: "+string(b))
				}
			}
			snapshot()
			switch scenario {
			case "sync-target-cut":
				if len(e.TgtClients) > 0 {
					e.TgtClients[len(e.TgtClients)-1].Reset()
				}
				e.WaitUntil(10*time.Second, 100*time.Millisecond, func() bool { return !s.Alive(e.Tool) })
				env.DefaultOptionsKeepConf()
				cmd = &run.CmdSync{}
				metric.CreateMetric(cmd)
				start() // restart after the error
			case "sync-source-cut":
				if t.Choose(2) == 1 {
					// the source takes the connection back (AUTH, REPLCONF accepted) but rejects the continuing PSYNC
					e.Src.RejectReconnect = []string{"NOMASTERLINK Can't SYNC while not connected with my master", "LOADING Redis is loading the dataset in memory", "ERR unknown"}[t.Choose(3)]
					c.Probe("reconnect_psync_rejected")
				}
				if len(e.Src.Links) > 0 {
					e.Src.Links[0].Conn.Reset()
				}
			}
			e.WaitUntil(8*time.Second, 100*time.Millisecond, func() bool { return false })
			snapshot()
		})
		c.Absorb(s)
	case "restore":
		env.DefaultOptions(conf.TypeRestore)
		lc = env.CaptureLog(level, 8<<20)
		conf.Options.LogLevel = level
		conf.Options.HttpProfile = -1
		conf.Options.TargetAddressList = []string{tgtAddr}
		conf.Options.TargetPasswordRaw = tgtPassword
		conf.Options.SourcePasswordRaw = srcPassword
		in := filepath.Join(c.TmpDir, "c19.rdb")
		file, _ := smallRDB(t, 3)
		os.WriteFile(in, file, 0644)
		conf.Options.SourceRdbInput = []string{in}
		conf.Options.Parallel = 2
		s := simrt.Run(c.TT, t, cfg, func(s *simrt.Sim) {
			net := simnet.New(s)
			tgt := modelredis.NewServer(s, net, "target", tgtAddr)
			tgt.Password = tgtPassword
			switch t.Choose(4) {
			case 2:
				tgt.Plant(0, "rdbkey:0", &modelredis.Entry{Val: &rc.Value{Kind: rc.KString, Str: []byte("busy")}}) // a failing restore path
			case 3:
				tgt.AuthUnknown = true
				c.Probe("auth_rejected_with_echo")
			}
			proc := s.NewProc("tool")
			done := false
			s.GoProc(proc, "restore-main", func() { (&run.CmdRestore{}).Main(); done = true })
			for i := 0; i < 300 && !done && s.Alive(proc); i++ {
				s.Sleep(100 * time.Millisecond)
			}
			if b, err := json.Marshal(conf.GetSafeOptions()); err == nil {
				status = append(status, "GetSafeOptions: "+string(b))
			}
		})
		c.Absorb(s)
	case "rump":
		env.DefaultOptions(conf.TypeRump)
		lc = env.CaptureLog(level, 8<<20)
		conf.Options.LogLevel = level
		conf.Options.SourceAddressList, conf.Options.TargetAddressList = []string{srcAddr}, []string{tgtAddr}
		conf.Options.SourcePasswordRaw, conf.Options.TargetPasswordRaw = srcPassword, tgtPassword
		s := simrt.Run(c.TT, t, cfg, func(s *simrt.Sim) {
			net := simnet.New(s)
			src := modelredis.NewServer(s, net, "source", srcAddr)
			src.Password = srcPassword
			tgt := modelredis.NewServer(s, net, "target", tgtAddr)
			tgt.Password = tgtPassword
			plantSource(t, src, 5, false)
			cmd := &run.CmdRump{}
			metric.CreateMetric(cmd)
			proc := s.NewProc("tool")
			done := false
			s.GoProc(proc, "rump-main", func() { cmd.Main(); done = true })
			for i := 0; i < 300 && !done && s.Alive(proc); i++ {
				s.Sleep(100 * time.Millisecond)
			}
			status = append(status, fmt.Sprintf("GetDetailedInfo: %v", cmd.GetDetailedInfo()))
			if b, err := json.Marshal(conf.GetSafeOptions()); err == nil {
				status = append(status, "GetSafeOptions: "+string(b))
			}
		})
		c.Absorb(s)
	case "dump":
		env.DefaultOptions(conf.TypeDump)
		lc = env.CaptureLog(level, 8<<20)
		conf.Options.LogLevel = level
		conf.Options.TargetRdbOutput = filepath.Join(c.TmpDir, "c19-dump")
		conf.Options.SourceAddressList = []string{srcAddr}
		conf.Options.SourcePasswordRaw = srcPassword
		conf.Options.TargetPasswordRaw = tgtPassword
		conf.Options.SourceRdbParallel = 1
		s := simrt.Run(c.TT, t, cfg, func(s *simrt.Sim) {
			net := simnet.New(s)
			src := modelredis.NewMaster(s, net, "source", srcAddr)
			src.Password = srcPassword
			src.RDB, _ = smallRDB(t, 3)
			src.Release = []modelredis.Release{{Upto: 0, At: 0}}
			if srcPassword != "" && t.Choose(4) == 3 {
				src.AuthUnknown = true
				c.Probe("auth_rejected_with_echo")
			}
			proc := s.NewProc("tool")
			done := false
			s.GoProc(proc, "dump-main", func() { (&run.CmdDump{}).Main(); done = true })
			for i := 0; i < 300 && !done && s.Alive(proc); i++ {
				s.Sleep(100 * time.Millisecond)
			}
			if b, err := json.Marshal(conf.GetSafeOptions()); err == nil {
				status = append(status, "GetSafeOptions: "+string(b))
			}
		})
		c.Absorb(s)
	case "decode":
		env.DefaultOptions(conf.TypeDecode)
		lc = env.CaptureLog(level, 8<<20)
		conf.Options.LogLevel = level
		conf.Options.SourcePasswordRaw = srcPassword
		conf.Options.TargetPasswordRaw = tgtPassword
		in := filepath.Join(c.TmpDir, "c19-in.rdb")
		file, _ := smallRDB(t, 3)
		os.WriteFile(in, file, 0644)
		conf.Options.SourceRdbInput = []string{in}
		conf.Options.TargetRdbOutput = filepath.Join(c.TmpDir, "c19-out")
		conf.Options.Parallel = 2
		s := simrt.Run(c.TT, t, cfg, func(s *simrt.Sim) {
			proc := s.NewProc("tool")
			done := false
			s.GoProc(proc, "decode-main", func() { (&run.CmdDecode{}).Main(); done = true })
			for i := 0; i < 300 && !done && s.Alive(proc); i++ {
				s.Sleep(100 * time.Millisecond)
			}
			if b, err := json.Marshal(conf.GetSafeOptions()); err == nil {
				status = append(status, "GetSafeOptions: "+string(b))
			}
		})
		c.Absorb(s)
	case "checkpoint":
		env.DefaultOptions(conf.TypeSync)
		lc = env.CaptureLog(level, 8<<20)
		conf.Options.LogLevel = level
		s := simrt.Run(c.TT, t, cfg, func(s *simrt.Sim) {
			net := simnet.New(s)
			tgt := modelredis.NewServer(s, net, "target", tgtAddr)
			tgt.Password = tgtPassword
			plantCheckpoint(tgt, t.Choose(3), srcAddr, "abc", int64(t.Choose(1000)), t.Choose(2))
			switch t.Choose(4) {
			case 2:
				tgt.Password = "another-password-so-that-auth-fails" // the AUTH failure path
			case 3:
				tgt.AuthUnknown = true // AUTH rejected by a server that echoes the arguments of what it does not understand
				c.Probe("auth_rejected_with_echo")
			}
			proc := s.NewProc("tool")
			done := false
			s.GoProc(proc, "load", func() {
				checkpoint.LoadCheckpoint(0, srcAddr, []string{tgtAddr}, "auth", tgtPassword, "redis-shake-checkpoint", false, false)
				done = true
			})
			for i := 0; i < 200 && !done && s.Alive(proc); i++ {
				s.Sleep(50 * time.Millisecond)
			}
		})
		c.Absorb(s)
	default: // supervisor
		env.DefaultOptions(conf.TypeSync)
		lc = env.CaptureLog(level, 8<<20)
		conf.Options.LogLevel = level
		s := simrt.Run(c.TT, t, cfg, func(s *simrt.Sim) {
			net := simnet.New(s)
			for i := 0; i < 3; i++ {
				sv := modelredis.NewServer(s, net, fmt.Sprintf("node-%d", i), fmt.Sprintf("10.1.0.%d:7000", i+1))
				sv.Password = srcPassword
				sv.Role = "slave"
				if i == 1 {
					probes := 0
					lateMaster := t.Choose(2) == 1
					sv.InfoReplication = func() string {
						probes++
						if lateMaster && probes == 1 {
							return "# Replication\r\nrole:slave\r\n" // fail-over in progress: nobody is master in the first round
						}
						return "# Replication\r\nrole:master\r\n"
					}
				}
				if i == 2 {
					switch t.Choose(3) {
					case 1:
						sv.Password = "different" // AUTH fails on this node
					case 2:
						sv.AuthUnknown = true
						c.Probe("auth_rejected_with_echo")
					}
				}
			}
			node := slot.SyncNode{Source: "10.1.0.1:7000", SourcePassword: srcPassword, Slaves: []string{"10.1.0.2:7000", "10.1.0.3:7000", "10.1.0.4:7000"}, Target: []string{tgtAddr}, TargetPassword: tgtPassword}
			proc := s.NewProc("tool")
			done := false
			s.GoProc(proc, "supervisor", func() {
				res, err := slotsupervisor.New(node).GetSlotState()
				status = append(status, fmt.Sprintf("supervisor error: %v", err))
				_ = res
				done = true
			})
			for i := 0; i < 2000 && !done && s.Alive(proc); i++ {
				s.Sleep(50 * time.Millisecond)
			}
		})
		c.Absorb(s)
	}
	logText := lc.String()
	c.Count("log_bytes_scanned", len(logText))
	for _, sec := range []struct{ name, val string }{{"source", srcPassword}, {"target", tgtPassword}} {
		if sec.val == "" {
			continue
		}
		if l := leak(logText, sec.val); l != "" {
			return core.Violate("password-in-log", fmt.Sprintf("%s-password,line=%s", sec.name, lineClass(logText, sec.val)), "the %s password appears in the log (%s, level %s): %s", sec.name, scenario, level, l)
		}
		for _, st := range status {
			if l := leak(st, sec.val); l != "" {
				return core.Violate("password-in-status", fmt.Sprintf("%s-password,doc=%s", sec.name, st[:strings.IndexByte(st, ':')]), "the %s password appears in a status document: %s", sec.name, l)
			}
		}
	}
	for _, st := range status {
		if strings.HasPrefix(st, "GetSafeOptions") && (!strings.Contains(st, `"SourcePasswordRaw":"***"`) || !strings.Contains(st, `"TargetPasswordRaw":"***"`)) {
			return core.Violate("safe-options-not-masked", "", "GetSafeOptions does not mask the password fields: %s", clipS([]byte(st)))
		}
	}
	c.Nontrivial = len(logText) > 0 || len(status) > 0
	if unprotectedSource {
		c.Probe("unprotected_source")
	}
	c.Probe("scenario_" + scenario)
	c.Probe("level_" + level)
	return nil
}

func init() {
	core.Register(&core.Prop{
		ID:         "C19",
		Run:        runC19,
		QuickRuns:  2500,
		PerProcess: 60,
		Rule: "one run = fresh random sentinel passwords for source and target (peers demand AUTH so the secrets really travel), one of seven run paths (CmdSync.Main start + full + incremental; the same with the target connection reset and a restart; " +
			"with the source link reset and a reconnect; CmdRestore.Main incl. a failing restore; CmdRump.Main; checkpoint load incl. an AUTH failure; slot supervisor incl. an AUTH failure) at log level debug/info/warn/error; " +
			"afterwards every captured log byte and the status documents (json of conf.GetSafeOptions, CmdSync/CmdRump.GetDetailedInfo, metric.NewMetricRest, returned errors) are searched for each sentinel in raw, hex and base64 form, " +
			"and the safe options must mask the password fields; bytes on the simulated wire are excluded (AUTH must carry them); distinct = hash of (schedule, scenario); non-trivial = something was logged",
		Assumptions: []string{
			"not covered: the REST handlers themselves and the start-up echo in main.go (redis-shake/main does not compile at this commit)",
			"sentinels are 17 characters from an alphabet without digits 0/1 and letters l/I/O, so an accidental match is practically impossible",
		},
		RealVsStub: "real: run.CmdSync/CmdRestore/CmdRump mains, dbSync, checkpoint, slotsupervisor, metric.NewMetricRest, conf.GetSafeOptions, pkg/libs/log; simulated: TCP, peers (AUTH required), clock, scheduling, connection resets, process restart",
		ProbeNames: []string{"auth_rejected_with_echo", "reconnect_psync_rejected", "scenario_sync", "scenario_sync-target-cut", "scenario_sync-source-cut", "scenario_restore", "scenario_rump", "scenario_checkpoint", "scenario_supervisor", "scenario_dump", "scenario_decode", "level_debug", "level_error"},
		FaultNames: []string{"conn_reset"},
	})
}
