package props

import (
	"bytes"
	"fmt"
	"strconv"
	"strings"
	"time"

	"github.com/alibaba/RedisShake/pkg/simrt"
	"github.com/alibaba/RedisShake/redis-shake/base"
	conf "github.com/alibaba/RedisShake/redis-shake/configure"

	"verifsim/core"
	"verifsim/env"
	"verifsim/modelredis"
	rc "verifsim/refcodec"
	"verifsim/simnet"
)

// C04 — checkpoints are atomic with the data, so resume loses and repeats nothing.

func isCkptKey(db int, k string) bool { return strings.HasPrefix(k, "redis-shake-checkpoint") }

// storedCheckpoint reads the newest checkpoint of source from the target model.
func storedCheckpoint(tgt *modelredis.Server, source string) (off int64, db int, runid string, hasVersion bool) {
	off, db = -1, -1
	for _, d := range tgt.DBIDs() {
		e := tgt.Get(d, "redis-shake-checkpoint")
		if e == nil || e.Val.Kind != rc.KHash {
			continue
		}
		var o int64 = -1
		var r string
		ver := false
		for _, p := range e.Val.Hash {
			switch string(p.F) {
			case source + "-offset":
				o, _ = strconv.ParseInt(string(p.V), 10, 64)
			case source + "-runid":
				r = string(p.V)
			case source + "-version":
				ver = true
			}
		}
		if o > off {
			off, db, runid, hasVersion = o, d, r, ver
		}
	}
	return
}

// referenceSnapshot applies the RDB keys and the forwarded commands with EndOff <= pos to a detached model.
func referenceSnapshot(rdbKeys []rc.Record, want []Fwd, pos int) map[string]string {
	ref := modelredis.NewDetached()
	for _, r := range rdbKeys {
		ref.Plant(int(r.DB), string(r.Key), &modelredis.Entry{Val: cloneValue(r.Val)})
	}
	for _, w := range want {
		if w.EndOff <= pos {
			ref.Apply(w.DB, w.Args)
		}
	}
	return ref.Snapshot(nil)
}

func runC04(c *core.Ctx) *core.Violation {
	if c.T.Choose(8) == 7 {
		return runC04TwoSources(c)
	}
	return runC04Cuts(c)
}

// runC04TwoSources: two source nodes synced by two DbSyncers of one tool process into one target. Each syncer's groups
// must carry that syncer's own checkpoint (fields named after its own source, its own run id, an offset of its own
// stream), and at the end each source's stored offset is the end of its own stream.
func runC04TwoSources(c *core.Ctx) *core.Violation {
	t := c.T
	c.Sub = "two-sources"
	env.DefaultOptions(conf.TypeSync)
	lc := env.CaptureLog("info", 8<<20)
	conf.Options.ResumeFromBreakPoint = true
	conf.Options.KeyExists = "rewrite"
	conf.Options.TargetReplace = true
	conf.Options.Metric = true
	conf.Options.SenderCount = uint([]int{1024, 1, 3}[t.Choose(3)])
	type srcCase struct {
		o0     int64
		cmds   []Cmd
		stream []byte
		want   []Fwd
		rel    []modelredis.Release
		addr   string
	}
	var sc [2]srcCase
	last := time.Duration(0)
	for i := range sc {
		sc[i].o0 = []int64{1000, 500000}[i] + int64(t.Choose(100))
		sc[i].cmds, sc[i].stream = GenStream(t, StreamOpts{MaxCmds: 14, DBs: 2, StartDB: -1, NonIdem: true, MinCmds: 4, NoScripts: true, KeyPrefixes: []string{fmt.Sprintf("s%d:", i)}})
		sc[i].want = ExpectedForward(sc[i].cmds, FilterCfg{TargetDB: -1})
		at := time.Second
		for _, cm := range sc[i].cmds {
			if t.Choose(2) == 0 {
				at += time.Duration(t.Choose(1200)) * time.Millisecond
			}
			sc[i].rel = append(sc[i].rel, modelredis.Release{Upto: cm.EndOff, At: at})
		}
		sc[i].rel = append(sc[i].rel, modelredis.Release{Upto: len(sc[i].stream), At: at})
		if at > last {
			last = at
		}
	}
	if len(sc[0].want) == 0 || len(sc[1].want) == 0 {
		return nil
	}
	c.Sample = map[string]interface{}{"sub": "two-sources", "o0": []int64{sc[0].o0, sc[1].o0}, "forwarded": []int{len(sc[0].want), len(sc[1].want)}, "sender_count": conf.Options.SenderCount}
	var viol *core.Violation
	var e *SyncEnv
	var diag []string
	s := simrt.Run(c.TT, t, simrt.Config{MaxSteps: 4000000, MaxSimTime: time.Hour, Trace: c.Trace}, func(s *simrt.Sim) {
		e = NewSyncEnv(c, s, lc)
		m := e.AddSource()
		srcs := []*modelredis.Master{e.Src, m}
		for i, x := range srcs {
			x.O0, x.Stream, x.Release = sc[i].o0, sc[i].stream, sc[i].rel
			x.RDB, _ = smallRDB(t, 0)
			sc[i].addr = x.Addr
		}
		defer func() { diag = e.Diag() }()
		e.StartTool()
		total := len(sc[0].want) + len(sc[1].want)
		e.WaitUntil(last+60*time.Second, 100*time.Millisecond, func() bool {
			n := 0
			_, by := e.CommandsByConn()
			for _, l := range by {
				n += len(l)
			}
			return n >= total && s.Now() > last+2*time.Second
		})
		s.Sleep(1500 * time.Millisecond)
		if e.ToolAborted() {
			viol = core.Violate("abort", "two-sources,err="+env.ErrClass(e.AbortText()), "the tool aborted without an injected fault: %s", e.AbortText())
			return
		}
		// wire: within one MULTI/EXEC group the checkpoint fields belong to the source whose keys the group carries
		owner := map[int]int{} // ExecID -> source index
		for _, a := range e.Tgt.Applied {
			if a.ExecID == 0 || a.IsError {
				continue
			}
			for _, x := range a.Args[1:] {
				for i := range sc {
					if bytes.Contains(x, []byte(fmt.Sprintf("s%d:", i))) {
						owner[a.ExecID] = i + 1
					}
				}
			}
		}
		for _, a := range e.Tgt.Applied {
			if a.ExecID == 0 || a.Name() != "hset" || len(a.Args) < 4 || !bytes.HasPrefix(a.Args[1], []byte("redis-shake-checkpoint")) {
				continue
			}
			o := owner[a.ExecID]
			if o == 0 {
				continue
			}
			me := sc[o-1]
			if !bytes.HasPrefix(a.Args[2], []byte(me.addr+"-")) {
				viol = core.Violate("checkpoint-of-another-source", "two-sources", "a group carrying keys of source %s stores the checkpoint field %q", me.addr, a.Args[2])
				return
			}
			if string(a.Args[2]) == me.addr+"-offset" {
				off, _ := strconv.ParseInt(string(a.Args[3]), 10, 64)
				if off < me.o0 || off > me.o0+int64(len(me.stream)) {
					viol = core.Violate("checkpoint-offset", "two-sources,out-of-stream", "source %s: stored offset %d is outside its stream [%d,%d]", me.addr, off, me.o0, me.o0+int64(len(me.stream)))
					return
				}
			}
		}
		// end state: each source's newest checkpoint is the end of its own stream, under its own run id
		for i, x := range srcs {
			off, _, runid, hasVer := storedCheckpoint(e.Tgt, sc[i].addr)
			wantOff := sc[i].o0 + int64(lastForwardedEnd(sc[i].cmds, sc[i].want))
			if off < wantOff || off > sc[i].o0+int64(len(sc[i].stream)) || runid != x.RunID || !hasVer {
				viol = core.Violate("checkpoint-final", "two-sources", "source %s: final checkpoint offset %d run id %q version present %v; its stream ends at %d (last forwarded command at %d), its run id is %q", sc[i].addr, off, runid, hasVer, sc[i].o0+int64(len(sc[i].stream)), wantOff, x.RunID)
				return
			}
		}
		c.Probe("two_sources")
	})
	c.Absorb(s)
	c.Log = diag
	c.Nontrivial = true
	return viol
}

// lastForwardedEnd: stream index just after the last forwarded command.
func lastForwardedEnd(cmds []Cmd, want []Fwd) int {
	if len(want) == 0 {
		return 0
	}
	return want[len(want)-1].EndOff
}

func runC04Cuts(c *core.Ctx) *core.Violation {
	t := c.T
	env.DefaultOptions(conf.TypeSync)
	lc := env.CaptureLog("info", 8<<20)
	conf.Options.ResumeFromBreakPoint = true
	conf.Options.KeyExists = "rewrite"
	conf.Options.TargetReplace = true
	conf.Options.Metric = true
	conf.Options.Parallel = 1 + t.Choose(3)
	conf.Options.SenderCount = uint([]int{1024, 1, 2, 3, 10}[t.Choose(5)])
	conf.Options.SenderSize = uint64([]int{65535, 1, 64}[t.Choose(3)])
	f := FilterCfg{TargetDB: -1}
	if t.Choose(4) == 3 {
		f.KeyBlack = []string{"user:"}
		conf.Options.FilterKeyBlacklist = f.KeyBlack
	}
	if t.Choose(5) == 4 {
		f.DBBlack = []string{"2"}
		conf.Options.FilterDBBlacklist = f.DBBlack
	}
	o0 := int64([]int{0, 1000, 123456789}[t.Choose(3)])
	so := StreamOpts{MaxCmds: 40, DBs: 3, StartDB: -1, NonIdem: true, MinCmds: 8, BigValues: t.Choose(4) == 3}
	if c.Thorough() {
		so.MaxCmds = 80
	}
	cmds, stream := GenStream(t, so)
	want := ExpectedForward(cmds, f)
	if len(want) < 2 {
		return nil
	}
	// pacing: 2-20 s (60 s thorough) so that several ACK ticks and ticker flushes pass
	var rel []modelredis.Release
	at := 2 * time.Second
	maxGap := 1500
	if c.Thorough() {
		maxGap = 4000
	}
	for _, cm := range cmds {
		if t.Choose(2) == 0 {
			at += time.Duration(t.Choose(maxGap)) * time.Millisecond
		}
		rel = append(rel, modelredis.Release{Upto: cm.EndOff, At: at})
	}
	rel = append(rel, modelredis.Release{Upto: len(stream), At: at})
	lastRelease := at
	ncuts := 1 + t.Choose(3)
	type cutSpec struct {
		kind  int // 0 target conn cut after k more bytes, 1 crash of the tool process after d, 2 target conn cut right now
		bytes int
		delay time.Duration
	}
	var cuts []cutSpec
	for i := 0; i < ncuts; i++ {
		cuts = append(cuts, cutSpec{kind: t.Choose(3), bytes: 1 + t.Choose(400), delay: time.Duration(t.Choose(3000)) * time.Millisecond})
	}
	cfg := simrt.Config{MaxSteps: 4000000, MaxSimTime: 3 * time.Hour, Trace: c.Trace}
	if t.Choose(2) == 1 {
		cfg.Sticky = 500 + t.Choose(450)
	}
	netMode := t.Choose(2)
	c.Sample = map[string]interface{}{"o0": o0, "commands": len(cmds), "forwarded": len(want), "cuts": fmt.Sprint(cuts), "sender": fmt.Sprintf("count=%d size=%d", conf.Options.SenderCount, conf.Options.SenderSize),
		"filters": fmt.Sprintf("keyB=%v dbB=%v", f.KeyBlack, f.DBBlack), "last_release": lastRelease.String(), "net_mode": netMode}

	var viol *core.Violation
	fail := func(clause, site, format string, a ...interface{}) {
		if viol == nil {
			viol = core.Violate(clause, site, format, a...)
		}
	}
	var e *SyncEnv
	var diag []string
	cutsDone := 0
	s := simrt.Run(c.TT, t, cfg, func(s *simrt.Sim) {
		e = NewSyncEnv(c, s, lc)
		if netMode == 1 {
			p := simnet.Profile{Split: 400, Latency: 300, MaxDelayMs: 30, ShortRead: 100}
			e.Tgt.L.ToClient, e.Tgt.L.ToServer = p, p
		}
		var rdbRecs []rc.Record
		e.Src.O0 = o0
		e.Src.Stream = stream
		e.Src.Release = rel
		e.Src.RDB, rdbRecs = smallRDB(t, 1+t.Choose(3))
		defer func() { diag = e.Diag() }()

		e.StartTool()
		for k := 0; k <= len(cuts); k++ {
			// wait for the incremental phase of this incarnation and for a first committed group
			// (the bound covers the whole release schedule: the first forwarded command may be released late,
			// and commands that are filtered out store no checkpoint)
			ok := e.WaitUntil(lastRelease+60*time.Second, 50*time.Millisecond, func() bool {
				off, _, _, _ := storedCheckpoint(e.Tgt, srcAddr)
				return base.Status == "incr" && off >= 0 && len(e.Src.Links) > 0
			})
			if e.ToolAborted() {
				fail("abort", "err="+env.ErrClass(e.AbortText()), "incarnation %d aborted without an injected fault: %s", k, e.AbortText())
				return
			}
			if !ok {
				fail("no-progress", fmt.Sprintf("incarnation=%d", minI(k, 1)), "incarnation %d did not reach the incremental phase with a checkpoint within 60 s of the last stream byte being released", k)
				return
			}
			if k == len(cuts) {
				break
			}
			if len(e.IncrLog()) >= len(want) && s.Now() > lastRelease {
				break // nothing left to interrupt
			}
			// ---- inject cut k
			cs := cuts[k]
			inc := e.TgtClients[len(e.TgtClients)-1] // the incremental connection is the last one this incarnation opened
			switch cs.kind {
			case 0:
				inc.CutAfterTotal(inc.WriteSum + int64(cs.bytes))
			case 1:
				s.Sleep(cs.delay)
				s.Fault("tool_crash")
				s.Crash(e.Tool)
			default:
				s.Sleep(cs.delay)
				inc.Reset()
			}
			cutsDone++
			// the tool must die (it cannot continue without its target connection)
			dead := e.WaitUntil(lastRelease+40*time.Second, 50*time.Millisecond, func() bool { return !s.Alive(e.Tool) })
			if !dead {
				if cs.kind == 0 && inc.WriteSum < inc.WriteSum+1 && !inc.Broken() {
					// the byte position was never reached (the stream ended first): not a cut
					cutsDone--
					break
				}
				fail("cut-not-noticed", fmt.Sprintf("kind=%d", cs.kind), "the tool kept running 40 s after its target connection was cut: %v", s.TaskStates())
				return
			}
			s.Sleep(200 * time.Millisecond) // let the target finish what it had received
			// ---- invariant at the cut: dataset == source history up to the stored offset
			off, db, runid, hasVer := storedCheckpoint(e.Tgt, srcAddr)
			pos := int(off - o0)
			if off < 0 {
				pos = 0
			}
			site := fmt.Sprintf("cut=%d,kind=%d", minI(k, 1), cs.kind)
			if off >= 0 {
				if runid != e.Src.RunID || !hasVer {
					fail("checkpoint-incomplete", site, "checkpoint in db %d has offset %d but run id %q (source %q), version present: %v", db, off, runid, e.Src.RunID, hasVer)
					return
				}
				if pos < 0 || pos > len(stream) {
					fail("checkpoint-offset", site+",out-of-stream", "stored offset %d is outside the stream [%d,%d]", off, o0, o0+int64(len(stream)))
					return
				}
			}
			got := e.Tgt.Snapshot(isCkptKey)
			wantSnap := referenceSnapshot(rdbRecs, want, pos)
			if d := modelredis.DiffSnapshots(got, wantSnap); d != "" {
				fail("dataset-at-cut", site, "after cut %d the stored offset is %d (stream position %d) but the dataset differs from the source history up to it: %s", k, off, pos, d)
				return
			}
			c.Probe(fmt.Sprintf("cut_kind_%d", cs.kind))
			if k > 0 {
				c.Probe("resume_after_second_cut")
			}
			if db > 0 {
				c.Probe("resume_nonzero_db")
			}
			// ---- restart
			e.StartTool()
		}
		// ---- the end: everything applied, dataset equals the uninterrupted run
		e.WaitUntil(lastRelease+60*time.Second, 100*time.Millisecond, func() bool {
			return s.Now() > lastRelease+3*time.Second && modelredis.DiffSnapshots(e.Tgt.Snapshot(isCkptKey), referenceSnapshot(rdbRecs, want, len(stream))) == ""
		})
		if e.ToolAborted() {
			fail("abort", "final,err="+env.ErrClass(e.AbortText()), "the last incarnation aborted: %s", e.AbortText())
			return
		}
		if d := modelredis.DiffSnapshots(e.Tgt.Snapshot(isCkptKey), referenceSnapshot(rdbRecs, want, len(stream))); d != "" {
			fail("dataset-final", fmt.Sprintf("cuts=%d", minI(cutsDone, 2)), "after %d cut(s) and resume the dataset differs from an uninterrupted run: %s", cutsDone, d)
			return
		}
		// ---- wire invariant: every data command ran inside a transaction that also stored a checkpoint offset in the same db
		groups := map[int][]modelredis.Applied{}
		var order []int
		for _, a := range e.Tgt.Applied {
			switch a.Name() {
			case "select", "ping", "info", "exists", "restore", "hgetall", "hdel", "config":
				continue
			case "del":
				if len(a.Args) == 2 && bytes.HasPrefix(a.Args[1], []byte("rdbkey:")) {
					continue
				}
			}
			if a.IsError {
				continue
			}
			isCk := a.Name() == "hset" && len(a.Args) == 4 && bytes.HasPrefix(a.Args[1], []byte("redis-shake-checkpoint"))
			if a.ExecID == 0 {
				if !isCk {
					fail("data-outside-transaction", "cmd="+a.Name(), "data command %s was applied outside a MULTI/EXEC group", a.String())
					return
				}
				continue
			}
			if _, ok := groups[a.ExecID]; !ok {
				order = append(order, a.ExecID)
			}
			groups[a.ExecID] = append(groups[a.ExecID], a)
		}
		for _, id := range order {
			g := groups[id]
			last := g[len(g)-1]
			if !(last.Name() == "hset" && bytes.HasSuffix(last.Args[2], []byte("-offset"))) {
				fail("group-without-checkpoint", "", "transaction %d ends with %s, not with the checkpoint offset", id, last.String())
				return
			}
			for _, a := range g {
				if a.DB != last.DB {
					fail("group-db", "", "transaction %d: %s ran in db %d but the checkpoint was written in db %d", id, a.String(), a.DB, last.DB)
					return
				}
			}
		}
	})
	c.Absorb(s)
	c.Log = diag
	if viol == nil && e.Tool != nil && e.Tool.Panicked {
		return core.Violate("go-panic", "sync", "Go panic in the tool: %s", firstLines(e.Tool.PanicMsg, 6))
	}
	c.Nontrivial = cutsDone > 0
	if s.Now0() > 3*time.Second {
		c.Probe("run_longer_than_1s")
	}
	return viol
}

func init() {
	core.Register(&core.Prop{
		ID:         "C04",
		Run:        runC04,
		QuickRuns:  5000,
		PerProcess: 100,
		Rule: "one run = resume-enabled DbSyncer.Sync() with a stream biased to non-idempotent commands (INCR/APPEND/RPUSH/INCRBY) over 3 dbs with MULTI/EXEC, filtered commands and pings, paced over 2-20 s, " +
			"interrupted 1-3 times: target connection cut after a tape-chosen number of further bytes (lands between commands, inside the tool's MULTI, inside a source transaction), target connection reset at a " +
			"tape-chosen instant, or crash of the tool process; each time the dataset on the target must equal the reference model fed with the filtered source history up to the stored checkpoint offset, the " +
			"checkpoint must carry run id and version; then a fresh incarnation resumes (LoadCheckpoint, PSYNC runid offset+1, select db); at the end the dataset equals an uninterrupted run and every data " +
			"command ran inside a transaction ending with the checkpoint offset in the same db; distinct = hash of (schedule, workload); non-trivial = at least one cut was injected",
		Assumptions: []string{
			"cuts are placed after the incremental phase has begun and a first group is committed (a cut during the full phase re-runs the full sync; key_exists governs that, not this property)",
			"key_exists = rewrite so that a repeated full sync cannot fail on busy keys",
			"a connection that disappears inside MULTI discards the queue (Redis semantics); bytes in flight at a crash are delivered or lost at a tape-chosen prefix",
		},
		RealVsStub: "real: dbSync pipeline, checkpoint.LoadCheckpoint/ClearCheckpoint, sendTargetCommand batching with MULTI/EXEC + checkpoint, redigo; simulated: TCP incl. cuts/resets, process crash and restart, master/target models, clock, scheduling",
		ProbeNames: []string{"cut_kind_0", "cut_kind_1", "cut_kind_2", "resume_after_second_cut", "resume_nonzero_db", "run_longer_than_1s"},
		FaultNames: []string{"conn_cut", "conn_reset", "tool_crash", "crash_lost_inflight"},
	})
}
