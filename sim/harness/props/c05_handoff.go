package props

import (
	"bytes"
	"fmt"
	"os"
	"path/filepath"
	"strings"
	"time"

	"github.com/alibaba/RedisShake/pkg/simrt"
	run "github.com/alibaba/RedisShake/redis-shake"
	conf "github.com/alibaba/RedisShake/redis-shake/configure"

	"verifsim/core"
	"verifsim/env"
	"verifsim/gen"
	"verifsim/modelredis"
	rc "verifsim/refcodec"
	"verifsim/simnet"
)

// C05 — the RDB/command-stream hand-off loses and duplicates no byte.

// handoffRDB draws a valid RDB whose size is steered towards the interesting boundaries
// (a few bytes, around the 8 KiB copy buffer, several buffers).
func handoffRDB(c *core.Ctx) ([]byte, []rc.Record) {
	t := c.T
	opts := gen.RDBOpts{MaxKeys: 4, MaxDBs: 2, NoModuleAux: true, MinVersion: 6, MaxElem: 300,
		Kinds: []rc.Kind{rc.KString, rc.KList, rc.KSet, rc.KZSet, rc.KHash}, FutureOnly: true, NoLua: true}
	_, _, version, items := gen.RDB(t, opts)
	pad := []int{0, 0, 3000, 8100, 8192, 8300, 20000, 70000}[t.Choose(8)]
	if pad > 0 {
		pad += t.Choose(200)
		v := make([]byte, pad)
		for i := range v {
			v[i] = byte('a' + i%26)
		}
		hasSel := false
		for _, it := range items {
			if it.Kind == "selectdb" {
				hasSel = true
			}
		}
		if !hasSel {
			items = append(items, rc.Item{Kind: "selectdb", DB: 0})
		}
		items = append(items, rc.Item{Kind: "key", Key: []byte("padding:key"), Val: &rc.Value{Kind: rc.KString, Str: v}, Type: rc.TString})
	}
	return rc.WriteRDB(version, items, t, true)
}

func heavySplit(t interface{ Choose(int) int }) simnet.Profile {
	return simnet.Profile{Split: 900, Latency: 500, MaxDelayMs: 1 + t.Choose(1500), ShortRead: 300}
}

func runC05(c *core.Ctx) *core.Violation {
	if c.T.Choose(3) == 2 {
		return runC05Dump(c)
	}
	return runC05Sync(c)
}

func runC05Sync(c *core.Ctx) *core.Violation {
	t := c.T
	c.Sub = "sync"
	env.DefaultOptions(conf.TypeSync)
	lc := env.CaptureLog("info", 4<<20)
	resume := t.Choose(2) == 1
	conf.Options.ResumeFromBreakPoint = resume
	conf.Options.Parallel = 1 + t.Choose(4)
	rdb, recs := handoffRDB(c)
	o0 := int64([]int{0, 1, 41, 123456789, 8589934592}[t.Choose(5)])
	cmds, stream := GenStream(t, StreamOpts{MaxCmds: 12, DBs: 2, StartDB: -1, NoScripts: true, BigValues: t.Choose(3) == 2})
	f := FilterCfg{TargetDB: -1}
	want := ExpectedForward(cmds, f)
	// timing of the command bytes relative to the RDB: with it (same write), right after, or later
	var rel []modelredis.Release
	delay := []time.Duration{0, 0, time.Millisecond, 300 * time.Millisecond, 1100 * time.Millisecond, 2500 * time.Millisecond}[t.Choose(6)]
	rel = append(rel, modelredis.Release{Upto: len(stream), At: delay})
	if t.Choose(3) == 2 && len(stream) > 3 {
		// the head of the stream rides with the RDB, the rest follows later
		k := 1 + t.Choose(len(stream)-1)
		rel = []modelredis.Release{{Upto: k, At: 0}, {Upto: len(stream), At: delay + 700*time.Millisecond}}
	}
	cfg := simrt.Config{MaxSteps: 3000000, MaxSimTime: time.Hour, Trace: c.Trace}
	if t.Choose(2) == 1 {
		cfg.Sticky = 500 + t.Choose(450)
	}
	netMode := t.Choose(3)
	pre, mid, cs := t.Choose(5), t.Choose(5), t.Choose(3)
	dropLink := t.Choose(4) == 3
	c.Sample = map[string]interface{}{"drop_source_link_after": dropLink, "sub": "sync", "rdb_len": len(rdb), "keys": len(recs), "stream_len": len(stream), "o0": o0, "newlines_before": pre, "newlines_mid": mid, "case": cs,
		"net_mode": netMode, "stream_delay": delay.String(), "releases": len(rel), "resume": resume}

	var e *SyncEnv
	var diag []string
	var rdbViol *core.Violation
	checkRDBKeys := func() *core.Violation {
		// full phase: exactly the RDB's keys with their values
		for _, r := range recs {
			if r.Lua {
				continue
			}
			got := e.Tgt.Get(int(r.DB), string(r.Key))
			if got == nil {
				return core.Violate("rdb-key-missing", fmt.Sprintf("rdbtype=%d", r.Type), "key %q of the RDB (db %d) is not on the target", clipS(r.Key), r.DB)
			}
			// keys also written by the command stream are judged by the stream oracle
			touched := false
			for _, w := range want {
				for _, k := range keysOf(w.Args) {
					if bytes.Equal(w.Args[k], r.Key) && w.DB == int(r.DB) {
						touched = true
					}
				}
			}
			if !touched {
				if ok, why := rc.Equal(got.Val, r.Val); !ok {
					return core.Violate("rdb-key-differs", fmt.Sprintf("rdbtype=%d", r.Type), "key %q: %s", clipS(r.Key), why)
				}
			}
		}
		return nil
	}
	s := simrt.Run(c.TT, t, cfg, func(s *simrt.Sim) {
		e = NewSyncEnv(c, s, lc)
		switch netMode {
		case 1:
			e.Src.L.ToClient = heavySplit(t)
		case 2:
			// byte-sized segments around the boundaries are produced by Split near head/tail; add a small window
			p := heavySplit(t)
			p.Window = 1 + t.Choose(20000)
			e.Src.L.ToClient = p
		}
		e.Src.O0, e.Src.RDB, e.Src.Stream, e.Src.Release = o0, rdb, stream, rel
		e.Src.PreNL, e.Src.MidNL, e.Src.CaseMode = pre, mid, cs
		e.StartTool()
		end := delay + 12*time.Second
		e.WaitUntil(60*time.Second, 100*time.Millisecond, func() bool { return s.Now() >= end && len(e.IncrLog()) >= len(want) })
		s.Sleep(2500 * time.Millisecond)
		if !e.ToolAborted() {
			rdbViol = checkRDBKeys() // inside the bubble: expiries are judged on the simulated clock
		}
		if dropLink && !e.ToolAborted() && len(e.Src.Links) == 1 && len(e.IncrLog()) >= len(want) {
			// "the run id and offset announced by the source are the ones used afterwards": drop the source link once
			// everything was delivered and look at the PSYNC of the reconnect
			s.Fault("source_link_reset")
			e.Src.Links[0].Conn.Reset()
			e.WaitUntil(30*time.Second, 100*time.Millisecond, func() bool { return len(e.Src.Links) > 1 })
			s.Sleep(500 * time.Millisecond)
		}
		diag = e.Diag()
	})
	c.Absorb(s)
	c.Log = diag
	if len(e.Src.Links) > 1 && rdbViol == nil {
		l := e.Src.Links[1]
		if l.ReqRunID != e.Src.RunID {
			return core.Violate("announced-runid", "reconnect", "after the source link was dropped the tool asked for PSYNC %q %d; the source had announced run id %q", l.ReqRunID, l.ReqOffset, e.Src.RunID)
		}
		if wantOff := o0 + int64(len(stream)) + 1; l.ReqOffset != wantOff {
			return core.Violate("announced-offset", "reconnect", "after the source link was dropped the tool asked for offset %d; announced offset %d + %d stream bytes + 1 = %d", l.ReqOffset, o0, len(stream), wantOff)
		}
		c.Probe("reconnect_after_handoff")
	}
	if e.Tool.Panicked {
		return core.Violate("go-panic", "sync", "Go panic in the tool: %s", firstLines(e.Tool.PanicMsg, 6))
	}
	if e.Tool.Exited {
		return core.Violate("abort", "sync,err="+env.ErrClass(lc.LastPanic()), "the tool aborted (a byte slipped across the RDB boundary, or the framing was misread): %s", lc.LastPanic())
	}
	if rdbViol != nil {
		return rdbViol
	}
	// command phase: exactly the commands that follow
	got := e.IncrLog()
	for i := 0; i < len(got) || i < len(want); i++ {
		if i >= len(want) {
			return core.Violate("stream-after-rdb", "extra-command", "the target applied %s, which is not in the stream that followed the RDB", fmtArgs(got[i].Args))
		}
		if i >= len(got) {
			return core.Violate("stream-after-rdb", "missing-command", "command #%d %s of the stream that followed the RDB was never applied (%d of %d)", want[i].SrcIdx, fmtArgs(want[i].Args), len(got), len(want))
		}
		if !argsEqual(got[i].Args, want[i].Args) || got[i].DB != want[i].DB {
			return core.Violate("stream-after-rdb", "wrong-command", "position %d: applied %s (db %d), the stream has %s (db %d)", i, fmtArgs(got[i].Args), got[i].DB, fmtArgs(want[i].Args), want[i].DB)
		}
	}
	// the announced run id and offset are the ones used afterwards
	if len(e.Src.Links) > 0 {
		l := e.Src.Links[0]
		wantAck := o0 + int64(len(stream))
		if len(l.Acks) == 0 {
			return core.Violate("no-ack", "sync", "no REPLCONF ACK was sent")
		}
		last := l.Acks[len(l.Acks)-1].Val
		if last != wantAck {
			return core.Violate("announced-offset", "ack", "the source announced offset %d and sent %d stream bytes, the last ACK is %d (expected %d)", o0, len(stream), last, wantAck)
		}
	}
	if resume && len(want) > 0 {
		_, _, runid, _ := storedCheckpoint(e.Tgt, srcAddr)
		if runid != e.Src.RunID {
			return core.Violate("announced-runid", "checkpoint", "checkpoint run id %q, the source announced %q", runid, e.Src.RunID)
		}
	}
	if len(rdb) > 8192 {
		c.Probe("rdb_larger_than_copy_buffer")
	}
	if pre+mid > 0 {
		c.Probe("keepalive_newlines")
	}
	if delay == 0 {
		c.Probe("commands_in_same_write_as_rdb")
	}
	c.Nontrivial = len(recs) > 0 || len(want) > 0
	return nil
}

// exactRDB builds an RDB of exactly size bytes (one padding string, plain encodings): sizes that are multiples of the
// tool's 8 MiB file-writer buffer are a boundary of their own.
func exactRDB(size int) ([]byte, []rc.Record) {
	mk := func(pad int) ([]byte, []rc.Record) {
		v := make([]byte, pad)
		for i := range v {
			v[i] = byte('a' + i%26)
		}
		items := []rc.Item{{Kind: "selectdb", DB: 0},
			{Kind: "key", Key: []byte("padding:key"), Val: &rc.Value{Kind: rc.KString, Str: v}, Type: rc.TString}}
		return rc.WriteRDB(9, items, plainChooser{}, true)
	}
	f, _ := mk(size - 100)
	return mk(size - 100 + (size - len(f)))
}

func runC05Dump(c *core.Ctx) *core.Violation {
	t := c.T
	c.Sub = "dump"
	env.DefaultOptions(conf.TypeDump)
	lc := env.CaptureLog("info", 1<<20)
	rdb, recs := handoffRDB(c)
	exact := 0
	if t.Choose(25) == 24 {
		// the RDB is a whole number of 8 MiB writer buffers, minus / plus one byte now and then
		exact = (1+t.Choose(2))*(8<<20) + []int{0, 0, 0, -1, 1}[t.Choose(5)]
		rdb, recs = exactRDB(exact)
		if len(rdb) != exact {
			return core.Violate("harness-size", "", "exactRDB(%d) produced %d bytes", exact, len(rdb))
		}
		c.Probe("rdb_multiple_of_writer_buffer")
	}
	trail := []byte{}
	if t.Choose(2) == 1 {
		_, st := GenStream(t, StreamOpts{MaxCmds: 5, DBs: 2, StartDB: -1})
		trail = st
	}
	out := filepath.Join(c.TmpDir, "dump-out")
	conf.Options.TargetRdbOutput = out
	conf.Options.SourceAddressList = []string{srcAddr}
	conf.Options.SourcePasswordRaw = srcPassword
	conf.Options.SourceRdbParallel = 1
	pre, mid := t.Choose(5), t.Choose(4)
	netMode := t.Choose(3)
	if exact != 0 && t.Choose(2) == 0 {
		netMode = 0 // delivered in large bursts
	}
	c.Sample = map[string]interface{}{"sub": "dump", "rdb_len": len(rdb), "keys": len(recs), "trailing_bytes": len(trail), "newlines": pre + mid, "net_mode": netMode}
	cfg := simrt.Config{MaxSteps: 3000000, MaxSimTime: time.Hour, Trace: c.Trace}
	var proc *simrt.Proc
	done := false
	s := simrt.Run(c.TT, t, cfg, func(s *simrt.Sim) {
		net := simnet.New(s)
		src := modelredis.NewMaster(s, net, "source", srcAddr)
		src.Password = srcPassword
		src.RDB, src.PreNL, src.MidNL = rdb, pre, mid
		src.TrailAfterRDB = trail
		src.Release = []modelredis.Release{{Upto: 0, At: 0}}
		if netMode >= 1 {
			p := heavySplit(t)
			if netMode == 2 {
				p.Window = 1 + t.Choose(20000)
			}
			src.L.ToClient = p
		}
		proc = s.NewProc("tool")
		s.GoProc(proc, "dump-main", func() {
			cmd := &run.CmdDump{}
			cmd.Main()
			done = true
		})
		for i := 0; i < 3000 && !done && s.Alive(proc); i++ {
			s.Sleep(100 * time.Millisecond)
		}
	})
	c.Absorb(s)
	c.Log = lc.Tail(30)
	if proc.Panicked {
		return core.Violate("go-panic", "dump", "Go panic in dump mode: %s", firstLines(proc.PanicMsg, 6))
	}
	if proc.Exited {
		return core.Violate("abort", "dump,err="+env.ErrClass(lc.LastPanic()), "dump mode aborted: %s", lc.LastPanic())
	}
	if !done {
		return core.Violate("dump-not-finished", "", "CmdDump.Main did not return within 300 s of simulated time")
	}
	got, err := os.ReadFile(out + ".0")
	if err != nil {
		return core.Violate("dump-file", "missing", "output file: %v", err)
	}
	if !bytes.Equal(got, rdb) {
		first := 0
		for first < len(got) && first < len(rdb) && got[first] == rdb[first] {
			first++
		}
		where := "middle"
		if first < 16 {
			where = "head"
		} else if first >= len(rdb)-16 || first >= len(got)-16 {
			where = "tail"
		}
		return core.Violate("dump-file", "differs-at-"+where, "the dump file (%d bytes) differs from the %d RDB bytes sent, first difference at byte %d", len(got), len(rdb), first)
	}
	if len(trail) > 0 {
		c.Probe("dump_trailing_bytes")
	}
	if strings.Contains(lc.String(), "waiting source rdb") {
		c.Probe("dump_waited_for_rdb")
	}
	c.Nontrivial = true
	return nil
}

func init() {
	core.Register(&core.Prop{
		ID:         "C05",
		Run:        runC05,
		QuickRuns:  6000,
		PerProcess: 120,
		Rule: "one run = (2/3) DbSyncer.Sync() against a master answering PSYNC with 0-4 leading newlines, +FULLRESYNC in upper/lower/mixed case, 0-4 newlines, $n, a valid RDB (a few bytes to ~70 KiB, " +
			"steered around the 8 KiB copy buffer) and a command stream whose first bytes ride in the same write as the RDB or follow 0-2.5 s later, over a link that splits 90% of the writes near head and tail, " +
			"delays segments up to 1.5 s and returns short reads, optionally with a tiny window; oracle: the target holds exactly the RDB's keys, applies exactly the commands that follow, the last ACK equals announced " +
			"offset + stream length, the checkpoint carries the announced run id; or (1/3) CmdDump.Main() against the same master answering SYNC, with trailing command bytes: the output file must be byte-identical to the RDB; " +
			"distinct = hash of (schedule, workload); non-trivial = something was transferred",
		Assumptions: []string{
			"the PSYNC2 reply '+CONTINUE <replid>' is not generated (the statement lists +FULLRESYNC/+CONTINUE lines)",
			"that bytes after the RDB 'stay unread' in dump mode is not observable through the public API and is not judged",
		},
		RealVsStub: "real: dbSync.sendPSyncCmd/runIncrementalSync, utils.SendPSyncContinue/waitRdbDump/Iocopy/OpenSyncConn, run.CmdDump, pipe, bufio, pkg/rdb loader; simulated: TCP with heavy segmentation, master/target models, clock, scheduling; dump output is a real file",
		ProbeNames: []string{"rdb_larger_than_copy_buffer", "keepalive_newlines", "commands_in_same_write_as_rdb", "dump_trailing_bytes", "reconnect_after_handoff", "rdb_multiple_of_writer_buffer"},
		FaultNames: []string{"segment_split", "latency", "short_read", "source_link_reset"},
	})
}
