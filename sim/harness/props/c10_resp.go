package props

import (
	"bufio"
	"bytes"
	"fmt"
	"strconv"
	"time"

	"github.com/alibaba/RedisShake/pkg/redis"
	"github.com/alibaba/RedisShake/pkg/simrt"
	"github.com/alibaba/RedisShake/pkg/simrt/tape"

	"verifsim/core"
	"verifsim/env"
)

// C10 — RESP codec round-trips, rejects malformed input and counts bytes exactly.

// rv is the reference value tree.
type rv struct {
	kind   byte // + - : $ *
	text   []byte
	n      int64
	isNil  bool
	items  []*rv
	inline bool // produced by the inline (space separated) form: nil-ness of an empty result is not specified
}

func (v *rv) print(b []byte) []byte {
	switch v.kind {
	case '+', '-':
		b = append(b, v.kind)
		b = append(b, v.text...)
		return append(b, '\r', '\n')
	case ':':
		b = append(b, ':')
		b = strconv.AppendInt(b, v.n, 10)
		return append(b, '\r', '\n')
	case '$':
		if v.isNil {
			return append(b, "$-1\r\n"...)
		}
		b = append(b, '$')
		b = strconv.AppendInt(b, int64(len(v.text)), 10)
		b = append(b, '\r', '\n')
		b = append(b, v.text...)
		return append(b, '\r', '\n')
	default:
		if v.isNil {
			return append(b, "*-1\r\n"...)
		}
		b = append(b, '*')
		b = strconv.AppendInt(b, int64(len(v.items)), 10)
		b = append(b, '\r', '\n')
		for _, it := range v.items {
			b = it.print(b)
		}
		return b
	}
}

// bulkBytes sums the payload bytes of all non-nil bulk strings in the tree.
func (v *rv) bulkBytes() int {
	n := 0
	if v.kind == '$' && !v.isNil {
		n = len(v.text) + 3
	}
	for _, it := range v.items {
		n += it.bulkBytes()
	}
	return n
}

// toRespArena is toResp with every bulk payload laid out in one shared backing array (each followed by three guard
// bytes), the way arguments cut out of one input line share their buffer: the slices have spare capacity that belongs
// to their neighbours.
func (v *rv) toRespArena(arena *[]byte) redis.Resp {
	switch v.kind {
	case '$':
		if v.isNil {
			return &redis.BulkBytes{Value: nil}
		}
		off := len(*arena)
		*arena = append(*arena, v.text...)
		*arena = append(*arena, 0xAA, 0xAA, 0xAA)
		return &redis.BulkBytes{Value: (*arena)[off : off+len(v.text)]}
	case '*':
		if v.isNil {
			return &redis.Array{Value: nil}
		}
		a := &redis.Array{Value: []redis.Resp{}}
		for _, it := range v.items {
			a.Value = append(a.Value, it.toRespArena(arena))
		}
		return a
	}
	return v.toResp()
}

func (v *rv) toResp() redis.Resp {
	switch v.kind {
	case '+':
		return &redis.String{Value: v.text}
	case '-':
		return &redis.Error{Value: v.text}
	case ':':
		return &redis.Int{Value: v.n}
	case '$':
		if v.isNil {
			return &redis.BulkBytes{Value: nil}
		}
		return &redis.BulkBytes{Value: v.text}
	default:
		if v.isNil {
			return &redis.Array{Value: nil}
		}
		a := &redis.Array{Value: []redis.Resp{}}
		for _, it := range v.items {
			a.Value = append(a.Value, it.toResp())
		}
		return a
	}
}

// same compares a decoded tool value with the reference tree.
func (v *rv) same(r redis.Resp) (bool, string) {
	switch x := r.(type) {
	case *redis.String:
		if v.kind != '+' || !bytes.Equal(x.Value, v.text) {
			return false, fmt.Sprintf("got simple string %q, want %s", x.Value, v.describe())
		}
	case *redis.Error:
		if v.kind != '-' || !bytes.Equal(x.Value, v.text) {
			return false, fmt.Sprintf("got error %q, want %s", x.Value, v.describe())
		}
	case *redis.Int:
		if v.kind != ':' || x.Value != v.n {
			return false, fmt.Sprintf("got int %d, want %s", x.Value, v.describe())
		}
	case *redis.BulkBytes:
		if v.kind != '$' {
			return false, fmt.Sprintf("got bulk, want %s", v.describe())
		}
		if (x.Value == nil) != v.isNil {
			return false, fmt.Sprintf("nil-ness of bulk differs (got nil=%v, want nil=%v)", x.Value == nil, v.isNil)
		}
		if !bytes.Equal(x.Value, v.text) {
			return false, fmt.Sprintf("got bulk %q, want %q", clipS(x.Value), clipS(v.text))
		}
	case *redis.Array:
		if v.kind != '*' {
			return false, fmt.Sprintf("got array, want %s", v.describe())
		}
		if !v.inline && (x.Value == nil) != v.isNil {
			return false, fmt.Sprintf("nil-ness of array differs (got nil=%v, want nil=%v)", x.Value == nil, v.isNil)
		}
		if len(x.Value) != len(v.items) {
			return false, fmt.Sprintf("array length %d, want %d", len(x.Value), len(v.items))
		}
		for i := range v.items {
			if ok, why := v.items[i].same(x.Value[i]); !ok {
				return false, fmt.Sprintf("[%d]: %s", i, why)
			}
		}
	default:
		return false, fmt.Sprintf("unexpected type %T", r)
	}
	return true, ""
}

func (v *rv) describe() string {
	return fmt.Sprintf("%c%q/%d/nil=%v/%d items", v.kind, clipS(v.text), v.n, v.isNil, len(v.items))
}

var intMenu = []int64{0, 1, -1, -1023, -1024, -1025, 524287, 524288, 524289, 1023, 1024, 9223372036854775807, -9223372036854775808, 10, -10, 65536, 2147483648}

func genRV(t *tape.Tape, depth, maxDepth int) *rv {
	k := t.Choose(8)
	if depth >= maxDepth && k >= 5 {
		k = t.Choose(5)
	}
	switch k {
	case 0:
		return &rv{kind: '$', text: t.Bytes(t.Choose(12), []byte("ab \r\n$*+:-\x00\xff1"))}
	case 1:
		if t.Choose(3) == 0 {
			return &rv{kind: ':', n: int64(t.Choose(2000000)) - 1000000}
		}
		return &rv{kind: ':', n: intMenu[t.Choose(len(intMenu))]}
	case 2:
		return &rv{kind: '+', text: t.Bytes(t.Choose(8), []byte("OKab c+-:$*"))}
	case 3:
		return &rv{kind: '-', text: t.Bytes(t.Choose(12), []byte("ERR wongtyp"))}
	case 4:
		switch t.Choose(4) {
		case 0:
			return &rv{kind: '$', isNil: true}
		case 1:
			return &rv{kind: '$', text: []byte{}}
		case 2:
			return &rv{kind: '*', isNil: true}
		default:
			return &rv{kind: '*', items: []*rv{}}
		}
	default:
		n := t.Choose(5)
		if depth == 0 && t.Choose(60) == 59 {
			// a wide array (a long MSET / SADD / RPUSH): element counts around 1024 and 65536
			n = []int{1023, 1024, 1025, 2048, 4097, 65535, 65537}[t.Choose(7)]
			v := &rv{kind: '*', items: make([]*rv, 0, n)}
			for i := 0; i < n; i++ {
				v.items = append(v.items, &rv{kind: '$', text: []byte(strconv.Itoa(i))})
			}
			return v
		}
		v := &rv{kind: '*', items: []*rv{}}
		for i := 0; i < n; i++ {
			v.items = append(v.items, genRV(t, depth+1, maxDepth))
		}
		return v
	}
}

// element of a stream: a value, a keep-alive newline run, or an inline command
type streamElem struct {
	kind  string // value | newline | inline | command
	v     *rv
	raw   []byte
	words [][]byte
}

// decodeSafe is redis.Decode outside a simulated process: a corrupted length can make the decoder ask the simulated
// allocator for gigabytes, which it refuses by panicking; here (no simulated process to kill) that is a rejection.
func decodeSafe(br *bufio.Reader) (r redis.Resp, err error) {
	defer func() {
		if x := recover(); x != nil {
			if _, ok := x.(simrt.AllocFailure); ok {
				r, err = nil, fmt.Errorf("allocation refused: %v", x)
				return
			}
			panic(x)
		}
	}()
	return redis.Decode(br)
}

func runC10(c *core.Ctx) *core.Violation {
	t := c.T
	maxDepth := 3
	if c.Thorough() {
		maxDepth = 4
	}
	mode := t.Choose(5) // 0,1,2 valid stream; 3 truncation; 4 single-byte corruption
	n := 1 + t.Choose(6)
	var elems []streamElem
	var stream []byte
	for i := 0; i < n; i++ {
		switch t.Choose(7) {
		case 0:
			k := 1 + t.Choose(3)
			raw := bytes.Repeat([]byte{'\n'}, k)
			elems = append(elems, streamElem{kind: "newline", raw: raw})
			stream = append(stream, raw...)
		case 1:
			// inline command: words without spaces/CR/LF, first byte not a RESP type byte
			nw := 1 + t.Choose(4)
			var words [][]byte
			var raw []byte
			for w := 0; w < nw; w++ {
				word := t.Bytes(1+t.Choose(6), []byte("abcPINGset01_"))
				words = append(words, word)
				if w > 0 {
					raw = append(raw, bytes.Repeat([]byte{' '}, 1+t.Choose(2))...)
				}
				raw = append(raw, word...)
			}
			raw = append(raw, '\r', '\n')
			elems = append(elems, streamElem{kind: "inline", raw: raw, words: words})
			stream = append(stream, raw...)
		case 2:
			// a command as the replication stream carries it
			nw := 1 + t.Choose(5)
			v := &rv{kind: '*', items: []*rv{}}
			for w := 0; w < nw; w++ {
				v.items = append(v.items, &rv{kind: '$', text: t.Bytes(1+t.Choose(10), []byte("SETkeyval\r\n\x00 1"))})
			}
			raw := v.print(nil)
			elems = append(elems, streamElem{kind: "value", v: v, raw: raw})
			stream = append(stream, raw...)
		default:
			v := genRV(t, 0, maxDepth)
			raw := v.print(nil)
			elems = append(elems, streamElem{kind: "value", v: v, raw: raw})
			stream = append(stream, raw...)
		}
	}
	bufSize := []int{4096, 16, 17, 64, 65536}[t.Choose(5)]
	c.Sample = map[string]interface{}{"mode": mode, "stream": clipS(stream), "stream_len": len(stream), "elements": len(elems), "bufio": bufSize}
	c.Key = hashBytes(stream) ^ uint64(mode)<<56 ^ uint64(bufSize)
	c.Nontrivial = len(stream) > 4

	// ---- 1. encoder: the tool's encoding of every value equals the reference printing, for any bufio.Writer size
	for _, e := range elems {
		if e.kind != "value" {
			continue
		}
		var out bytes.Buffer
		w := bufio.NewWriterSize(&out, []int{16, 4096, 1}[t.Choose(3)])
		resp := e.v.toResp()
		var arena, before []byte
		if t.Choose(2) == 1 {
			arena = make([]byte, 0, e.v.bulkBytes())
			resp = e.v.toRespArena(&arena)
			before = append([]byte(nil), arena...)
		}
		if err := redis.Encode(w, resp, true); err != nil {
			return core.Violate("encode-error", string(e.v.kind), "Encode failed for %s: %v", e.v.describe(), err)
		}
		if !bytes.Equal(out.Bytes(), e.raw) {
			return core.Violate("encode-bytes", string(e.v.kind), "Encode produced %q, RESP says %q", clipS(out.Bytes()), clipS(e.raw))
		}
		if !bytes.Equal(arena[:len(before)], before) {
			return core.Violate("encode-mutates-input", string(e.v.kind), "Encode changed the caller's memory: the buffer its bulk arguments are slices of was %q and is now %q", clipS(before), clipS(arena[:len(before)]))
		}
		if len(before) > 0 {
			c.Probe("bulk_args_share_a_buffer")
		}
	}

	switch mode {
	case 3, 4:
		return c10Malformed(c, elems, stream, mode, bufSize)
	}

	// ---- 2. decoding a valid stream through fragmentation: values, leftovers, offsets
	lc := env.CaptureLog("error", 1<<16)
	var viol *core.Violation
	var proc *simrt.Proc
	fr := newFragReader(t, stream)
	s := simrt.Run(c.TT, t, simrt.Config{MaxSteps: 100000, MaxSimTime: time.Minute, Trace: c.Trace}, func(s *simrt.Sim) {
		proc = s.NewProc("tool")
		done := false
		s.GoProc(proc, "decoder", func() {
			defer func() { done = true }()
			br := bufio.NewReaderSize(fr, bufSize)
			d := redis.NewDecoder(br)
			consumed := int64(0)
			pendingNL := int64(0)
			for i, e := range elems {
				if e.kind == "newline" {
					pendingNL += int64(len(e.raw)) // skipped together with the next value
					continue
				}
				resp, off := redis.MustDecodeOpt(d)
				consumed += pendingNL + int64(len(e.raw))
				pendingNL = 0
				switch e.kind {
				case "value":
					if ok, why := e.v.same(resp); !ok {
						viol = core.Violate("decode-value", string(e.v.kind), "element %d: %s (encoding %q)", i, why, clipS(e.raw))
						return
					}
				case "inline":
					a, ok := resp.(*redis.Array)
					if !ok || len(a.Value) != len(e.words) {
						viol = core.Violate("decode-inline", "shape", "inline command %q decoded to %T with %d words", clipS(e.raw), resp, lenOf(resp))
						return
					}
					for k := range e.words {
						b, ok := a.Value[k].(*redis.BulkBytes)
						if !ok || !bytes.Equal(b.Value, e.words[k]) {
							viol = core.Violate("decode-inline", "word", "inline command %q: word %d decoded wrongly", clipS(e.raw), k)
							return
						}
					}
					c.Probe("inline_command")
				}
				// the stream position: bytes handed to bufio minus what it still buffers
				pos := int64(fr.pos - br.Buffered())
				if pos != consumed {
					viol = core.Violate("decode-leftover", e.kind, "after element %d the decoder has consumed %d bytes of the stream, the element ends at %d", i, pos, consumed)
					return
				}
				if off != consumed {
					site := e.kind
					if e.kind == "value" {
						site = "value"
					}
					viol = core.Violate("offset", site, "after element %d (%s) the decoder reports offset %d but %d bytes were consumed", i, e.kind, off, consumed)
					return
				}
				// ParseArgs on command-shaped values
				if e.kind == "value" && e.v.kind == '*' && !e.v.isNil && len(e.v.items) > 0 {
					allBulk := true
					for _, it := range e.v.items {
						if it.kind != '$' {
							allBulk = false
						}
					}
					cmd, args, err := redis.ParseArgs(resp)
					if allBulk && len(e.v.items[0].text) > 0 {
						if err != nil || cmd != string(bytes.ToLower(e.v.items[0].text)) || len(args) != len(e.v.items)-1 {
							viol = core.Violate("parse-args", "", "ParseArgs(%q) = %q, %d args, %v", clipS(e.raw), cmd, len(args), err)
							return
						}
						for k := range args {
							if !bytes.Equal(args[k], e.v.items[k+1].text) {
								viol = core.Violate("parse-args", "arg", "ParseArgs(%q): argument %d differs", clipS(e.raw), k)
								return
							}
						}
					} else if !allBulk && err == nil {
						viol = core.Violate("parse-args", "accepts-non-bulk", "ParseArgs accepted %q", clipS(e.raw))
						return
					}
				}
				if pendingNL == 0 && i > 0 && elems[i-1].kind == "newline" {
					c.Probe("keepalive_newline")
				}
			}
		})
		for i := 0; i < 100 && !done && s.Alive(proc); i++ {
			s.Sleep(time.Millisecond)
		}
	})
	c.Absorb(s)
	if viol != nil {
		return viol
	}
	if proc.Panicked {
		return core.Violate("go-panic", "decode", "Go panic while decoding a valid stream: %s", firstLines(proc.PanicMsg, 4))
	}
	if proc.Exited {
		return core.Violate("decode-error-on-valid", "err="+env.ErrClass(lc.LastPanic()), "valid stream %q rejected: %s", clipS(stream), lc.LastPanic())
	}
	return nil
}

func lenOf(r redis.Resp) int {
	if a, ok := r.(*redis.Array); ok {
		return len(a.Value)
	}
	return -1
}

func hashBytes(b []byte) uint64 {
	h := uint64(14695981039346656037)
	for _, x := range b {
		h = (h ^ uint64(x)) * 1099511628211
	}
	return h
}

// refParse is the reference RESP parser: returns the value, bytes consumed, and
// one of: ok, "incomplete" (more bytes could complete it), or an error class.
func refParse(b []byte, depth int) (v *rv, n int, status string) {
	i := 0
	if depth == 0 {
		for i < len(b) && b[i] == '\n' {
			i++
		}
	}
	if i >= len(b) {
		return nil, i, "incomplete"
	}
	line := func(from int) ([]byte, int, string) {
		k := bytes.IndexByte(b[from:], '\n')
		if k < 0 {
			return nil, 0, "incomplete"
		}
		if k < 1 || b[from+k-1] != '\r' {
			return nil, 0, "bad-crlf"
		}
		return b[from : from+k-1], from + k + 1, ""
	}
	t := b[i]
	switch t {
	case '+', '-':
		l, next, st := line(i + 1)
		if st != "" {
			return nil, 0, st
		}
		return &rv{kind: t, text: l}, next, "ok"
	case ':':
		l, next, st := line(i + 1)
		if st != "" {
			return nil, 0, st
		}
		x, err := strconv.ParseInt(string(l), 10, 64)
		if err != nil {
			return nil, 0, "bad-int"
		}
		return &rv{kind: ':', n: x}, next, "ok"
	case '$':
		l, next, st := line(i + 1)
		if st != "" {
			return nil, 0, st
		}
		x, err := strconv.ParseInt(string(l), 10, 64)
		if err != nil {
			return nil, 0, "bad-len"
		}
		if x < -1 {
			return nil, 0, "bad-len"
		}
		if x == -1 {
			return &rv{kind: '$', isNil: true}, next, "ok"
		}
		if int64(len(b)-next) < x+2 {
			return nil, 0, "incomplete"
		}
		if b[next+int(x)] != '\r' || b[next+int(x)+1] != '\n' {
			return nil, 0, "bad-crlf"
		}
		return &rv{kind: '$', text: b[next : next+int(x)]}, next + int(x) + 2, "ok"
	case '*':
		l, next, st := line(i + 1)
		if st != "" {
			return nil, 0, st
		}
		x, err := strconv.ParseInt(string(l), 10, 64)
		if err != nil {
			return nil, 0, "bad-len"
		}
		if x < -1 {
			return nil, 0, "bad-len"
		}
		if x == -1 {
			return &rv{kind: '*', isNil: true}, next, "ok"
		}
		v := &rv{kind: '*', items: []*rv{}}
		for k := int64(0); k < x; k++ {
			// keep-alive newlines are also tolerated between elements by the tool; the reference
			// treats a bare LF in front of an element as the tool does (skipped)
			for next < len(b) && b[next] == '\n' {
				next++
			}
			it, m, st := refParse(b[next:], depth+1)
			if st != "ok" {
				return nil, 0, st
			}
			v.items = append(v.items, it)
			next += m
		}
		return v, next, "ok"
	default:
		if depth != 0 {
			return nil, 0, "bad-type"
		}
		l, next, st := line(i)
		if st != "" {
			return nil, 0, st
		}
		v := &rv{kind: '*', items: []*rv{}, inline: true}
		for _, w := range bytes.Split(l, []byte(" ")) {
			if len(w) > 0 {
				v.items = append(v.items, &rv{kind: '$', text: w})
			}
		}
		return v, next, "ok"
	}
}

// c10Malformed: truncation (mode 3) or single-byte substitution (mode 4) of the stream.
func c10Malformed(c *core.Ctx, elems []streamElem, stream []byte, mode, bufSize int) *core.Violation {
	t := c.T
	if len(stream) == 0 {
		return nil
	}
	data := append([]byte(nil), stream...)
	what := ""
	if mode == 3 {
		cut := t.Choose(len(stream))
		data = data[:cut]
		what = fmt.Sprintf("truncated at %d", cut)
		c.Fault("stream_truncated")
	} else {
		pos := t.Choose(len(stream))
		nb := byte(t.Choose(256))
		if nb == data[pos] {
			nb ^= 0x20
		}
		data[pos] = nb
		what = fmt.Sprintf("byte %d set to %#x", pos, nb)
		c.Fault("byte_substituted")
	}
	br := bufio.NewReaderSize(newFragReader(t, data), bufSize)
	rest := data
	for k := 0; k < len(elems)+2; k++ {
		want, n, st := refParse(rest, 0)
		got, err := decodeSafe(br)
		switch st {
		case "ok":
			if err != nil {
				return core.Violate("decode-error-on-valid", "malformed-mode", "%s: the reference parses %q but the tool fails: %v", what, clipS(rest[:n]), err)
			}
			if ok, why := want.same(got); !ok {
				return core.Violate("decode-value", "malformed-mode", "%s: %s (bytes %q)", what, why, clipS(rest[:n]))
			}
			rest = rest[n:]
		default:
			if err == nil {
				return core.Violate("malformed-accepted", st, "%s: the tool returned a value (%T) for %q, which is %s", what, got, clipS(rest), st)
			}
			c.Probe("rejected_" + st)
			return nil
		}
		if len(rest) == 0 {
			if _, err := decodeSafe(br); err == nil {
				return core.Violate("malformed-accepted", "value-after-eof", "%s: a value was returned after the end of the stream", what)
			}
			return nil
		}
	}
	return nil
}

func init() {
	core.Register(&core.Prop{
		ID:         "C10",
		Run:        runC10,
		QuickRuns:  30000,
		PerProcess: 3000,
		Rule: "one run = a stream of 1-6 elements (RESP value trees up to nesting 3 (4 thorough) with nil/empty bulks and arrays, integers around the pre-rendered table edges and int64 limits, " +
			"binary payloads; command arrays; inline command lines; keep-alive newline runs); the tool's encoder must equal the reference printer; the stream is decoded through a " +
			"fragmenting reader and bufio of 16 B-64 KiB with value, leftover and offset checks after every element; 40% of runs truncate or corrupt one byte and compare the tool's verdict with a " +
			"reference parser; distinct = hash of (stream, mode, buffer size); non-trivial = stream longer than 4 bytes",
		Assumptions: []string{
			"simple strings and errors are generated without CR/LF (they cannot carry them in RESP)",
			"in corrupted streams a bare LF in front of a nested element is skipped, as the tool's type reader does at every depth",
		},
		RealVsStub: "real: pkg/redis encoder, decoder, ParseArgs, bufio; simulated: input stream (fragmentation, truncation, substitution), scheduling, process exit",
		ProbeNames: []string{"bulk_args_share_a_buffer", "inline_command", "keepalive_newline", "rejected_incomplete", "rejected_bad-crlf", "rejected_bad-len", "rejected_bad-type", "rejected_bad-int"},
		FaultNames: []string{"stream_truncated", "byte_substituted"},
	})
}
