package props

import (
	"bufio"
	"bytes"
	"fmt"
	"strconv"
	"strings"
	"time"

	"github.com/alibaba/RedisShake/pkg/simrt"
	conf "github.com/alibaba/RedisShake/redis-shake/configure"

	"verifsim/core"
	"verifsim/env"
	"verifsim/modelredis"
	"verifsim/simnet"
)

// C08 — offsets reported to the source are exactly 'start offset + bytes consumed'.

// toolWrites parses the commands the tool wrote on one recorded client endpoint and returns,
// for each, the endpoint's cumulative read count at the moment of the write.
type toolCmd struct {
	Args    [][]byte
	ReadSum int64
	T       time.Duration
}

func toolCommands(c *simnet.Conn) []toolCmd {
	var out []toolCmd
	var pending []byte
	for _, ev := range c.Events {
		if ev.Kind != "write" {
			continue
		}
		pending = append(pending, ev.Data...)
		for {
			br := bufio.NewReader(bytes.NewReader(pending))
			args, err := modelredis.ReadCommand(br)
			if err != nil {
				break
			}
			used := len(pending) - br.Buffered()
			pending = pending[used:]
			out = append(out, toolCmd{Args: args, ReadSum: ev.ReadSum, T: ev.T})
		}
	}
	return out
}

func runC08(c *core.Ctx) *core.Violation {
	t := c.T
	env.DefaultOptions(conf.TypeSync)
	lc := env.CaptureLog("info", 4<<20)
	resume := t.Choose(2) == 1
	conf.Options.ResumeFromBreakPoint = resume
	conf.Options.Parallel = 1 + t.Choose(2)
	conf.Options.SenderCount = uint([]int{1024, 1, 5}[t.Choose(3)])
	o0 := int64([]int{0, 1, 77, 4294967296 + 5, 123456789}[t.Choose(5)])
	startMode := 0
	ckptDB := 0
	if resume && t.Choose(2) == 1 {
		startMode = 1
		ckptDB = t.Choose(3)
	}
	so := StreamOpts{MaxCmds: 40, DBs: 3, StartDB: -1, NonIdem: true, BigValues: t.Choose(4) == 3}
	if startMode == 1 {
		so.StartDB = ckptDB
	}
	cmds, stream := GenStream(t, so)
	if len(cmds) == 0 {
		return nil
	}
	f := FilterCfg{TargetDB: -1}
	want := ExpectedForward(cmds, f)

	// pacing over 5-30 s (120 s thorough): bursts and idle periods spanning several ACK ticks
	var rel []modelredis.Release
	at := 1500 * time.Millisecond
	maxGap := 4000
	if c.Thorough() {
		maxGap = 15000
	}
	for _, cm := range cmds {
		if t.Choose(3) == 0 {
			at += time.Duration(t.Choose(maxGap)) * time.Millisecond
		}
		rel = append(rel, modelredis.Release{Upto: cm.EndOff, At: at})
	}
	rel = append(rel, modelredis.Release{Upto: len(stream), At: at})
	lastRelease := at

	// source faults: up to two cuts of the replication link at stream positions, optional refused re-dials
	ncuts := t.Choose(3)
	var cutPos []int
	var finCut []bool
	for i := 0; i < ncuts; i++ {
		var p int
		switch t.Choose(3) {
		case 0:
			p = cmds[t.Choose(len(cmds))].EndOff // exactly between two commands
		case 1:
			p = 1 + t.Choose(len(stream)) // anywhere, mostly mid-command
		default:
			p = cmds[t.Choose(len(cmds))].EndOff - 1 - t.Choose(3)
		}
		if p < 1 {
			p = 1
		}
		cutPos = append(cutPos, p)
		finCut = append(finCut, t.Choose(3) == 2) // an orderly close by the source (FIN) instead of a reset
	}
	refuse := 0
	if ncuts > 0 && t.Choose(3) == 2 {
		refuse = 1 + t.Choose(3)
	}
	stalls := t.Choose(4) == 3
	cfg := simrt.Config{MaxSteps: 3000000, MaxSimTime: 2 * time.Hour, Trace: c.Trace}
	if stalls {
		cfg.StallPerMille = 3
		cfg.StallMax = 1500 * time.Millisecond
	}
	if t.Choose(2) == 1 {
		cfg.Sticky = 500 + t.Choose(450)
	}
	netMode := t.Choose(2)
	slowTarget := t.Choose(4) == 3
	c.Sample = map[string]interface{}{"slow_target": slowTarget, "o0": o0, "resume": resume, "start": []string{"fullresync", "continue"}[startMode], "commands": len(cmds), "stream_len": len(stream),
		"cuts_at_stream_pos": fmt.Sprint(cutPos), "cut_is_fin": fmt.Sprint(finCut), "refused_redials": refuse, "last_release": lastRelease.String(), "stalls": stalls, "net_mode": netMode}

	var e *SyncEnv
	var diag []string
	s := simrt.Run(c.TT, t, cfg, func(s *simrt.Sim) {
		e = NewSyncEnv(c, s, lc)
		if netMode == 1 {
			p := simnet.Profile{Split: 400, Latency: 300, MaxDelayMs: 40, ShortRead: 100}
			e.Src.L.ToClient, e.Src.L.ToServer = p, p
		}
		if slowTarget {
			// a slow target: the full phase (RDB restore) is still running while the source already streams, drops
			// the link and takes the tool back — the command parser has not started yet
			p := simnet.Profile{Latency: 1000, MaxDelayMs: 200 + t.Choose(1500)}
			e.Tgt.L.ToClient, e.Tgt.L.ToServer = p, p
		}
		e.Src.O0 = o0
		e.Src.Stream = stream
		e.Src.Release = rel
		e.Src.PreNL, e.Src.MidNL, e.Src.CaseMode = t.Choose(2), t.Choose(2), t.Choose(3)
		if startMode == 1 {
			plantCheckpoint(e.Tgt, ckptDB, srcAddr, e.Src.RunID, o0, 1)
		} else {
			e.Src.RDB, _ = smallRDB(t, t.Choose(3))
		}
		// arrange the cuts: the n-th replication link is cut when its stream position reaches cutPos[n]
		linkNo := 0
		dialsAfterCut := 0
		e.Src.L.OnAccept = func(cl, sv *simnet.Conn) {}
		e.Src.L.Refuse = func(attempt int) bool {
			if refuse > 0 && linkNo > 0 && dialsAfterCut < refuse {
				dialsAfterCut++
				return true
			}
			return false
		}
		e.StartTool()
		// watcher: installs the cut on each new replication link once its header length is known
		armed := map[int]bool{}
		end := lastRelease + 12*time.Second
		for s.Now() < end+60*time.Second {
			for _, l := range e.Src.Links {
				if !armed[l.ID] && l.Header > 0 {
					armed[l.ID] = true
					if linkNo < len(cutPos) {
						// stream index of the first byte on this link
						first := int(l.StartOff - o0 - 1)
						l.Conn.CutGraceful = finCut[linkNo]
						if cutPos[linkNo] > first {
							l.Conn.CutAfterTotal(l.Base + l.Header + int64(cutPos[linkNo]-first))
						} else {
							l.Conn.CutAfterTotal(l.Base + l.Header + 1)
						}
						linkNo++
						dialsAfterCut = 0
					}
				}
			}
			if e.ToolAborted() {
				break
			}
			if s.Now() >= end && len(e.IncrLog()) >= len(want) {
				break
			}
			s.Sleep(50 * time.Millisecond)
		}
		// let two more ACK ticks pass on an idle stream
		s.Sleep(2500 * time.Millisecond)
		diag = e.Diag()
	})
	c.Absorb(s)
	c.Log = diag
	if e.Tool.Panicked {
		return core.Violate("go-panic", "sync", "Go panic in the tool: %s", firstLines(e.Tool.PanicMsg, 6))
	}
	if e.Tool.Exited {
		return core.Violate("abort", "err="+env.ErrClass(lc.LastPanic()), "the tool aborted: %s", lc.LastPanic())
	}

	// ---- oracle over the tool's writes on the replication links
	var lastAck int64 = -1
	prevFinalRecv := int64(-1) // offset of the last stream byte received on the previous link
	nAcks := 0
	for li, l := range e.Src.Links {
		cl := l.Conn.Peer() // the tool's endpoint
		tc := toolCommands(cl)
		// reconnect request
		if li > 0 && l.Kind != "sync" {
			if l.ReqRunID != e.Src.RunID {
				return core.Violate("reconnect-runid", "", "reconnect %d sent run id %q, the source announced %q", li, l.ReqRunID, e.Src.RunID)
			}
			if prevFinalRecv >= 0 && l.ReqOffset != prevFinalRecv+1 {
				return core.Violate("reconnect-offset", fmt.Sprintf("reconnect=%d", minI(li, 2)), "reconnect %d asked for offset %d; start offset + bytes received = %d, so the next byte is %d", li, l.ReqOffset, prevFinalRecv, prevFinalRecv+1)
			}
			c.Probe("reconnect")
		}
		for _, w := range tc {
			if len(w.Args) != 3 || !strings.EqualFold(string(w.Args[0]), "replconf") || !strings.EqualFold(string(w.Args[1]), "ack") {
				continue
			}
			a, err := strconv.ParseInt(string(w.Args[2]), 10, 64)
			if err != nil {
				return core.Violate("ack-syntax", "", "REPLCONF ACK %q", w.Args[2])
			}
			nAcks++
			recvStream := w.ReadSum - l.Header - linkPreamble(cl, l)
			if recvStream < 0 {
				recvStream = 0
			}
			recv := l.StartOff - 1 + recvStream // offset of the last stream byte the tool's reads have returned
			if a == 0 {
				if lastAck > 0 {
					return core.Violate("ack-decreased", "to-zero", "ACK 0 after ACK %d", lastAck)
				}
				continue
			}
			if a > recv {
				return core.Violate("ack-ahead", ackSite(li, nAcks), "link %d: ACK %d at %v, but only offsets up to %d had been received (start %d + %d stream bytes)", li, a, w.T, recv, l.StartOff-1, recvStream)
			}
			if a < lastAck {
				return core.Violate("ack-decreased", ackSite(li, nAcks), "link %d: ACK %d after ACK %d", li, a, lastAck)
			}
			lastAck = a
			if !stalls && idleFor(cl, w.T, 2200*time.Millisecond) && a != recv {
				return core.Violate("ack-behind-when-idle", ackSite(li, nAcks), "link %d: ACK %d at %v although the stream has been idle for two ticks and %d had been received", li, a, w.T, recv)
			}
		}
		// final receive position of this link
		prevFinalRecv = l.StartOff - 1 + maxI64(0, cl.ReadSum-l.Header-linkPreamble(cl, l))
	}
	if nAcks == 0 {
		return core.Violate("no-ack", "", "the tool never sent REPLCONF ACK in %v", s.Now0())
	}
	// ---- end to end: the stream continued at the exact byte (commands once, in order)
	got := e.IncrLog()
	for i := 0; i < len(got) || i < len(want); i++ {
		if i >= len(want) {
			return core.Violate("stream-continuity", "extra-command", "the target applied %s, not in the source stream at this position", fmtArgs(got[i].Args))
		}
		if i >= len(got) {
			return core.Violate("stream-continuity", "missing-command", "the target never applied source command #%d %s (%d of %d applied, %d cuts)", want[i].SrcIdx, fmtArgs(want[i].Args), len(got), len(want), ncuts)
		}
		if !argsEqual(got[i].Args, want[i].Args) || got[i].DB != want[i].DB {
			return core.Violate("stream-continuity", "wrong-command", "position %d: applied %s in db %d, source has %s in db %d", i, fmtArgs(got[i].Args), got[i].DB, fmtArgs(want[i].Args), want[i].DB)
		}
	}
	// ---- checkpoints carry exact stream positions
	if resume {
		if v := checkpointOffsetsExact(e.Tgt, cmds, want, o0); v != nil {
			return v
		}
	}
	if len(e.Src.Links) > 1 {
		c.Probe("link_count_gt1")
	}
	if s.Now0() > 6*time.Second {
		c.Probe("several_ack_ticks")
	}
	c.Nontrivial = len(want) > 0
	return nil
}

func ackSite(link, n int) string {
	k := "first-link"
	if link > 0 {
		k = "after-reconnect"
	}
	if n <= 1 {
		return k + ",first-ack"
	}
	return k + ",later-ack"
}

func maxI64(a, b int64) int64 {
	if a > b {
		return a
	}
	return b
}

// linkPreamble: bytes the tool had read on this endpoint when it wrote PSYNC/SYNC
// (the replies to AUTH and REPLCONF listening-port; a reconnect authenticates twice).
func linkPreamble(cl *simnet.Conn, l *modelredis.Link) int64 {
	for _, w := range toolCommands(cl) {
		if n := strings.ToLower(string(w.Args[0])); n == "psync" || n == "sync" {
			return w.ReadSum
		}
	}
	return 0
}

// idleFor reports whether no read returned data on the endpoint during (t-d, t].
func idleFor(cl *simnet.Conn, t, d time.Duration) bool {
	for _, ev := range cl.Events {
		if ev.Kind == "read" && ev.T > t-d && ev.T <= t {
			return false
		}
	}
	return t > d
}

// checkpointOffsetsExact: every checkpoint offset written to the target is start offset + a stream
// position that is a command boundary at or after the end of the last data command applied before it
// and before the end of the next data command (only pings / selects / filtered noise lie in between).
func checkpointOffsetsExact(tgt *modelredis.Server, cmds []Cmd, want []Fwd, o0 int64) *core.Violation {
	bound := map[int]bool{0: true}
	for _, cm := range cmds {
		bound[cm.EndOff] = true
	}
	wi := 0
	lastEnd := 0
	for _, a := range tgt.Applied {
		name := a.Name()
		if name == "hset" && len(a.Args) == 4 && bytes.HasPrefix(a.Args[1], []byte("redis-shake-checkpoint")) {
			if bytes.HasSuffix(a.Args[2], []byte("-offset")) {
				o, _ := strconv.ParseInt(string(a.Args[3]), 10, 64)
				pos := o - o0
				next := int64(1) << 62
				if wi < len(want) {
					next = int64(want[wi].EndOff)
				}
				if pos < int64(lastEnd) || pos >= next || !bound[int(pos)] {
					return core.Violate("checkpoint-offset", "not-stream-position", "checkpoint offset %d (stream position %d) written after the data command ending at %d and before the one ending at %d: not a command boundary in that range", o, pos, lastEnd, next)
				}
			}
			continue
		}
		switch name {
		case "select", "ping", "info", "exists", "restore", "hgetall", "hdel", "config":
			continue
		case "del":
			if len(a.Args) == 2 && bytes.HasPrefix(a.Args[1], []byte("rdbkey:")) {
				continue
			}
		}
		if wi < len(want) && argsEqual(a.Args, want[wi].Args) {
			lastEnd = want[wi].EndOff
			wi++
		}
	}
	return nil
}

func init() {
	core.Register(&core.Prop{
		ID:         "C08",
		Run:        runC08,
		QuickRuns:  6000,
		PerProcess: 150,
		Rule: "one run = DbSyncer.Sync() for 5-30 s (thorough: up to 120 s) of simulated time with bursts and idle periods over several ACK ticks, start offset from {0,1,77,2^32+5,...}, " +
			"+FULLRESYNC or +CONTINUE start, and 0-2 cuts of the replication link at tape-chosen stream positions (between commands, mid-command), optionally with refused re-dials; " +
			"oracle on the tool's own writes (recorded with the cumulative byte count its reads had returned): every REPLCONF ACK <= start + bytes received, non-decreasing, equal once idle for two ticks; " +
			"every reconnect PSYNC <runid> <start + bytes received + 1>; end-to-end command continuity on the target; with resume on, every checkpoint offset is an exact stream position; " +
			"distinct = hash of (schedule, workload); non-trivial = at least one forwarded command",
		Assumptions: []string{
			"'bytes received' = bytes returned by Read on the tool's socket (the simulated transport records them)",
			"the tool gives up after 3 failures per hour (max amount of failures), so at most two cuts are injected per run",
			"idle-equality is not judged in runs with injected scheduler stalls",
		},
		RealVsStub: "real: dbSync pipeline incl. pSyncPipeCopy/runIncrementalSync reconnect loop, utils.SendPSyncContinue/SendPSyncAck, pkg/redis decoder, pipe; simulated: TCP incl. link cuts and refused dials, master/target models, clock, scheduling",
		ProbeNames: []string{"reconnect", "link_count_gt1", "several_ack_ticks"},
		FaultNames: []string{"conn_cut", "conn_fin", "dial_refused", "segment_split", "latency", "sched_stall"},
	})
}
