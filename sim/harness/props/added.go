package props

import "verifsim/core"

// Additions to runs and oracles made after the first version of each check (waves of seeded changes, thorough-tier
// triage). They are appended to the rule text in the evidence files.
func init() {
	add := func(id string, items ...string) {
		if p := core.Lookup(id); p != nil {
			p.Added = append(p.Added, items...)
		}
	}
	add("C02", "entries reach the restorer through utils.NewRDBLoader with the parser as a concurrent task (channel capacity 0/1/2/1024)",
		"1/10 of the runs reset the connection after a tape-chosen number of bytes: an error or abort is accepted, a success must still be exact",
		"half of the chunked hashes carry a time shift")
	add("C04", "1/8 of the runs: two sources, two DbSyncers in one process, one target; every group carries the checkpoint fields of its own source, final offsets are the ends of the two streams")
	add("C05", "1/4 of the sync runs reset the source link after the hand-off: the reconnect PSYNC must carry the announced run id and announced offset + stream bytes + 1")
	add("C07", "1/8 of the runs reset one target connection after 20-4020 bytes (reported failure or full dataset; a logged restart of the full phase makes the counts per attempt)",
		"restore mode with 1-3 input files and source.rdb.parallel 1-3", "slow storage (io_stall) in a third of the restore runs")
	add("C08", "one link drop in three is an orderly close by the source (FIN)", "a quarter of the runs have a slow target (the full phase outlasts the first link drop)")
	add("C09", "a quarter of the runs close a side twice with different errors: the first close wins when the calls do not overlap",
		"every statement of the pipe package is a scheduling point (lock-dropping changes)")
	add("C10", "half of the encodings use bulk arguments that are slices of one buffer, which must be unchanged afterwards")
	add("C11", "while mutants are judged the simulated allocator refuses single allocations above 4 MiB", "1 run in 4: two or three loaders at once under the scheduler; every payload must carry the CRC-64 of its own bytes", "RDB files with 1-8 missing trailer bytes must be rejected")
	add("C12", "a third of the runs first decode four damaged payloads with valid trailers (a rejected payload must leave nothing behind)")
	add("C13", "a third of the runs: two sources, two DbSyncers in one process; every connection's commands are exactly one source's expected sequence")
	add("C14", "1/6 of the runs let the real DbSyncer write the checkpoints (multi-db stream, killed mid-stream or after it) and the loader must return exactly the newest stored (offset, run id, db)",
		"a reset inside ClearCheckpoint waives only the stale-removal clause")
	add("C15", "shard-sync runs with 1-3 shards synced at once; each syncer's checkpoint key must hash into its own range")
	add("C16", "qps 3 and a slow source (SCANs taking 0.5-3 s)", "no target reply may be unread by the tool when Main returns")
	add("C17", "a quarter of the runs find a longer earlier output at the output path", "slow storage (io_stall) in a third of the runs")
	add("C18", "1/6 of the runs have 2-3 writers at once: the retained window must parse as a chain of whole Writes", "every statement of the backlog package is a scheduling point")
	add("C19", "AUTH rejected by a server that echoes the arguments of the command it does not know (sync, restore, checkpoint, supervisor scenarios)", "unprotected source; supervisor round with a late master", "two more run paths: dump mode (CmdDump.Main against a master) and decode mode")
	add("C20", "a quarter of the runs are a restart chain through the real DbSyncer.Sync: each discovery is followed by a refused PSYNC, the master role moves between restarts")
}
