package props

import "verifsim/core"

// Additions to runs and oracles made after the first version of each check (waves of seeded changes, thorough-tier
// triage). They are appended to the rule text in the evidence files.
func init() {
	add := func(id string, items ...string) {
		if p := core.Lookup(id); p != nil {
			p.Added = append(p.Added, items...)
		}
	}
	add("C01", "generator: integer-named keys around the 8/16/32-bit widths (negative too), expiries beyond 2038, strings around 4/8/64 KiB, collections around 200/256/300 elements")
	add("C03", "with a db filter half of the streams also switch to databases 10, 11, 12, 15; one value in 24 is the empty string")
	add("C06", "key names with a closing brace ahead of the first opening brace (slot filter)")
	add("C02", "entries reach the restorer through utils.NewRDBLoader with the parser as a concurrent task (channel capacity 0/1/2/1024)",
		"1/10 of the runs reset the connection after a tape-chosen number of bytes: an error or abort is accepted, a success must still be exact",
		"half of the chunked hashes carry a time shift", "a sixth of the runs allow elements up to 70000 bytes (8/16/64 KiB boundaries inside ziplists)")
	add("C04", "1/8 of the runs: two sources, two DbSyncers in one process, one target; every group carries the checkpoint fields of its own source, final offsets are the ends of the two streams", "a quarter of the streams carry values of 2-7 KiB (a resume then meets a backlog burst larger than the 8 KiB copy buffer); empty-string values")
	add("C05", "1/4 of the sync runs reset the source link after the hand-off: the reconnect PSYNC must carry the announced run id and announced offset + stream bytes + 1", "dump mode: 1 run in 25 transfers an RDB of exactly one or two 8 MiB writer buffers (or one byte off)", "a third of the streams carry values of 2-7 KiB that arrive with the RDB tail")
	add("C07", "1/8 of the runs reset one target connection after 20-4020 bytes (reported failure or full dataset; a logged restart of the full phase makes the counts per attempt)",
		"restore mode with 1-3 input files and source.rdb.parallel 1-3", "slow storage (io_stall) in a third of the restore runs", "a quarter of the runs configure the target without REPLACE; the injected error can hit the RESTORE that follows the DEL (second attempt)")
	add("C08", "one link drop in three is an orderly close by the source (FIN)", "a quarter of the runs have a slow target (the full phase outlasts the first link drop)", "a quarter of the streams carry values of 2-7 KiB")
	add("C09", "a quarter of the runs close a side twice with different errors: the first close wins when the calls do not overlap",
		"every statement of the pipe package is a scheduling point (lock-dropping changes)", "the writer overwrites its buffer as soon as Write has returned")
	add("C10", "half of the encodings use bulk arguments that are slices of one buffer, which must be unchanged afterwards", "1 top-level array in 60 has 1023-65537 elements", "an allocator refusal outside a simulated process counts as a rejection")
	add("C11", "while mutants are judged the simulated allocator refuses single allocations above 4 MiB", "1 run in 4: two or three loaders at once under the scheduler; every payload must carry the CRC-64 of its own bytes", "RDB files with 1-8 missing trailer bytes must be rejected")
	add("C12", "a third of the runs first decode four damaged payloads with valid trailers (a rejected payload must leave nothing behind)")
	add("C13", "a third of the runs: two sources, two DbSyncers in one process; every connection's commands are exactly one source's expected sequence", "1 key in 16 is exactly a configured prefix")
	add("C14", "1/6 of the runs let the real DbSyncer write the checkpoints (multi-db stream, killed mid-stream or after it) and the loader must return exactly the newest stored (offset, run id, db)",
		"a reset inside ClearCheckpoint waives only the stale-removal clause", "checkpoint hash under the default or a slot-suffixed name (the other name, when planted, must stay untouched); databases 10, 12, 15")
	add("C15", "shard-sync runs with 1-3 shards synced at once; each syncer's checkpoint key must hash into its own range", "1 run in 10 checks the latency probe key of 64 tape-chosen single-slot shards")
	add("C16", "qps 3 and a slow source (SCANs taking 0.5-3 s)", "no target reply may be unread by the tool when Main returns")
	add("C17", "a quarter of the runs find a longer earlier output at the output path", "slow storage (io_stall) in a third of the runs")
	add("C18", "1/6 of the runs have 2-3 writers at once: the retained window must parse as a chain of whole Writes", "every statement of the backlog package is a scheduling point", "writers overwrite their buffers as soon as Write has returned")
	add("C19", "AUTH rejected by a server that echoes the arguments of the command it does not know (sync, restore, checkpoint, supervisor scenarios)", "unprotected source; supervisor round with a late master", "two more run paths: dump mode (CmdDump.Main against a master) and decode mode", "after a source link reset half of the runs reject the continuing PSYNC with an error reply")
	add("C20", "a quarter of the runs are a restart chain through the real DbSyncer.Sync: each discovery is followed by a refused PSYNC, the master role moves between restarts")
}
