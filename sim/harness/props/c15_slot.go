package props

import (
	"fmt"
	"strings"
	"time"

	"github.com/alibaba/RedisShake/pkg/simrt"

	utils "github.com/alibaba/RedisShake/redis-shake/common"
	conf "github.com/alibaba/RedisShake/redis-shake/configure"
	"github.com/alibaba/RedisShake/redis-shake/dbSync/latencymonitor"
	"github.com/alibaba/RedisShake/redis-shake/dbSync/slot"
	"github.com/alibaba/RedisShake/redis-shake/filter"

	"github.com/alibaba/RedisShake/pkg/simrt/tape"

	"verifsim/core"
	"verifsim/env"
	rc "verifsim/refcodec"
)

// C15 — key-to-slot mapping follows the Redis Cluster specification.
//
// The mapping is a pure function of the key; the simulator contributes nothing
// to the direct part of this check (stated in the evidence). The observation
// through a simulated full sync with a slot filter, and through the checkpoint
// key a shard syncer writes, lives in the SYNC scenario (C06/C04 sub-runs).

func braceKey(t *tape.Tape) []byte {
	alphabet := []byte("{}ab{}x")
	switch t.Choose(6) {
	case 0:
		return t.Bytes(t.Choose(12), alphabet)
	case 1:
		return t.Bytes(t.Choose(24), []byte("{}a"))
	case 2:
		// classic shapes
		shapes := []string{"{}", "{}{x}", "{a}{b}", "}{", "{{a}}", "{a}", "a{b}c", "{", "}", "{a", "a}", "{}{}", "{a}{}", "{}a{b}", "a{}b{c}d", "{a}}", "{{}", "}{a}", "", "{{a}b}", "x{}{a}{b}"}
		return []byte(shapes[t.Choose(len(shapes))])
	case 3:
		return append(t.Bytes(t.Choose(8), nil), append([]byte("{"), append(t.Bytes(t.Choose(4), nil), '}')...)...)
	case 4:
		return t.Bytes(t.Choose(40), nil)
	default:
		return append([]byte("user:{"), append(t.Bytes(1+t.Choose(5), []byte("0123456789")), []byte("}:profile")...)...)
	}
}

func runC15(c *core.Ctx) *core.Violation {
	if c.T.Choose(8) == 7 {
		return runC15Shard(c)
	}
	return runC15Direct(c)
}

// runC15Shard observes, in a simulated resume-enabled sync of a cluster shard with slot boundaries [l, r],
// the checkpoint key the tool actually uses on the target (EXISTS / HSET) and that a key of that name in the
// source RDB is not copied.
func runC15Shard(c *core.Ctx) *core.Violation {
	t := c.T
	c.Sub = "shard-sync"
	env.DefaultOptions(conf.TypeSync)
	lc := env.CaptureLog("info", 2<<20)
	conf.Options.ResumeFromBreakPoint = true
	var l, r int
	switch t.Choose(4) {
	case 0:
		l = t.Choose(16384)
		r = l
	case 1:
		l, r = 0, 16383
	case 2:
		l = t.Choose(16384)
		r = l + t.Choose(16384-l)
	default:
		l, r = []int{0, 5461, 10923}[t.Choose(3)], 0
		r = l + 5460
	}
	// further shards of the same cluster, synced by their own DbSyncer in the same process at the same time
	type shard struct {
		l, r int
		addr string
	}
	shards := []shard{{l, r, srcAddr}}
	if more := t.Choose(3); more > 0 {
		for i := 1; i <= more; i++ {
			var sl, sr int
			switch t.Choose(3) {
			case 0:
				sl = t.Choose(16384)
				sr = sl + t.Choose(minI(64, 16384-sl))
			case 1:
				sl = t.Choose(16384)
				sr = sl + t.Choose(16384-sl)
			default:
				sl = (5461 * i) % 16384
				sr = minI(sl+5460, 16383)
			}
			shards = append(shards, shard{sl, sr, fmt.Sprintf("10.0.0.%d:6379", 10+i)})
		}
	}
	c.Sample = map[string]interface{}{"sub": "shard-sync", "slot_range": fmt.Sprintf("[%d,%d]", l, r), "shards": len(shards)}
	c.Key = uint64(l)<<20 | uint64(r) | uint64(len(shards))<<40
	var viol *core.Violation
	s := simrt.Run(c.TT, t, simrt.Config{MaxSteps: 2000000, MaxSimTime: time.Hour, Trace: c.Trace}, func(s *simrt.Sim) {
		e := NewSyncEnv(c, s, lc)
		e.Node.SlotLeftBoundary, e.Node.SlotRightBoundary = l, r
		// what the reference says the checkpoint key may be: any name hashing into [l, r] that starts with the checkpoint prefix.
		// Plant, in the source RDB, the key the tool will choose (taken from the tool's own function, judged below by the reference slot).
		name := utils.ChoseSlotInRange(utils.CheckpointKey, l, r)
		items := []rc.Item{{Kind: "selectdb", DB: 0},
			{Kind: "key", Key: []byte(name), Val: &rc.Value{Kind: rc.KString, Str: []byte("must-not-be-copied")}, Type: rc.TString},
			{Kind: "key", Key: []byte("ordinary"), Val: &rc.Value{Kind: rc.KString, Str: []byte("v")}, Type: rc.TString}}
		e.Src.RDB, _ = rc.WriteRDB(9, items, rc.Zero, true)
		e.Src.Stream = append(respCmd(bs("SELECT", "0")...), respCmd(bs("SET", "after", "1")...)...)
		for i := 1; i < len(shards); i++ {
			m := e.AddSource()
			m.RDB, _ = smallRDB(t, 0)
			m.Stream = append(respCmd(bs("SELECT", "0")...), respCmd(bs("SET", fmt.Sprintf("after-%d", i), "1")...)...)
		}
		e.NodeTweak = func(i int, nd *slot.SyncNode) { nd.SlotLeftBoundary, nd.SlotRightBoundary = shards[i].l, shards[i].r }
		e.StartTool()
		e.WaitUntil(30*time.Second, 100*time.Millisecond, func() bool {
			n := 0
			for _, a := range e.Tgt.Applied {
				if a.Name() == "set" && strings.HasPrefix(string(a.Args[1]), "after") {
					n++
				}
			}
			return n >= len(shards)
		})
		s.Sleep(1500 * time.Millisecond)
		if e.ToolAborted() {
			viol = core.Violate("abort", "shard,err="+env.ErrClass(e.AbortText()), "shard sync aborted: %s", e.AbortText())
			return
		}
		seen := map[string]bool{}
		for _, a := range e.Tgt.Applied {
			n := a.Name()
			if (n == "exists" || n == "hset" || n == "hgetall" || n == "hdel") && len(a.Args) >= 2 && strings.HasPrefix(string(a.Args[1]), "redis-shake-checkpoint") {
				seen[string(a.Args[1])] = true
			}
			if n == "restore" && strings.HasPrefix(string(a.Args[1]), "redis-shake-checkpoint") {
				viol = core.Violate("checkpoint-key-copied", "full-sync", "the full phase restored the key %q from the source", a.Args[1])
				return
			}
		}
		if len(seen) == 0 {
			viol = core.Violate("checkpoint-key-range", "never-used", "resume is enabled but the tool never touched a checkpoint key on the target")
			return
		}
		// each shard's syncer stores fields named after its own source address: its key must hash into its own range
		for _, a := range e.Tgt.Applied {
			if a.Name() != "hset" || len(a.Args) < 3 || !strings.HasPrefix(string(a.Args[1]), "redis-shake-checkpoint") {
				continue
			}
			for _, sh := range shards {
				if strings.HasPrefix(string(a.Args[2]), sh.addr+"-") {
					if sl := rc.KeySlot(a.Args[1]); sl < sh.l || sl > sh.r {
						viol = core.Violate("checkpoint-key-range", fmt.Sprintf("used-outside,shards=%d", minI(len(shards), 2)), "the syncer of shard %s [%d,%d] stores its checkpoint in %q, which hashes to slot %d", sh.addr, sh.l, sh.r, a.Args[1], sl)
						return
					}
				}
			}
		}
		if len(shards) > 1 {
			c.Probe("several_shards_at_once")
		}
		for k := range seen {
			inSome := false
			for _, sh := range shards {
				if sl := rc.KeySlot([]byte(k)); sl >= sh.l && sl <= sh.r {
					inSome = true
				}
			}
			if !inSome {
				viol = core.Violate("checkpoint-key-range", "used-outside", "a shard syncer uses checkpoint key %q, which hashes to slot %d outside every shard's range %v", k, rc.KeySlot([]byte(k)), shards)
				return
			}
		}
		if e.Tgt.Get(0, "ordinary") == nil {
			viol = core.Violate("checkpoint-key-range", "ordinary-key-lost", "the ordinary key of the RDB was not copied")
		}
	})
	c.Absorb(s)
	c.Probe("shard_sync_observed")
	c.Nontrivial = true
	return viol
}

func runC15Direct(c *core.Ctx) *core.Violation {
	t := c.T
	env.DefaultOptions(conf.TypeSync)
	env.CaptureLog("error", 1<<16)
	var keys []string
	for i := 0; i < 40; i++ {
		k := braceKey(t)
		keys = append(keys, string(k))
		want := rc.KeySlot(k)
		got := int(utils.KeyToSlot(string(k)))
		if got != want {
			return core.Violate("key-to-slot", braceShape(string(k)), "KeyToSlot(%q) = %d, the cluster specification gives %d", k, got, want)
		}
		// the CRC16 copies agree with CRC-16/XMODEM
		w16 := rc.CRC16(k)
		if g := utils.VerifCrc16(string(k)); g != w16 {
			return core.Violate("crc16", "redis-shake/common", "crc16(%q) = %#x, CRC-16/XMODEM is %#x", k, g, w16)
		}
		if g := latencymonitor.VerifCrc16(string(k)); g != w16 {
			return core.Violate("crc16", "dbSync/latencymonitor", "crc16(%q) = %#x, CRC-16/XMODEM is %#x", k, g, w16)
		}
	}
	// slot ranges: the checkpoint key of a shard hashes inside [l, r] and is excluded by the key filter
	nr := 3
	if c.Thorough() {
		nr = 40
	}
	var ranges [][2]int
	for i := 0; i < nr; i++ {
		var l, r int
		switch t.Choose(6) {
		case 0:
			l = t.Choose(16384)
			r = l // single slot
		case 1:
			l, r = 0, 16383
		case 2:
			l, r = 0, t.Choose(16384)
		case 3:
			l = t.Choose(16384)
			r = 16383
		case 4:
			l = t.Choose(16384)
			r = l + t.Choose(16384-l)
		default:
			l = []int{0, 16383, 5460, 5461, 10922, 10923}[t.Choose(6)]
			r = l
		}
		ranges = append(ranges, [2]int{l, r})
		name := utils.ChoseSlotInRange(utils.CheckpointKey, l, r)
		if name == "" {
			return core.Violate("checkpoint-key-range", "none-found", "no checkpoint key found for slot range [%d,%d]", l, r)
		}
		if s := rc.KeySlot([]byte(name)); s < l || s > r {
			return core.Violate("checkpoint-key-range", "outside", "checkpoint key %q hashes to slot %d, outside [%d,%d]", name, s, l, r)
		}
		if !strings.HasPrefix(name, utils.CheckpointKey) {
			return core.Violate("checkpoint-key-range", "prefix", "checkpoint key %q does not start with %q", name, utils.CheckpointKey)
		}
		// excluded by the key filter under every key-filter configuration
		for _, cfg := range [][2][]string{{nil, nil}, {{"a"}, nil}, {nil, {"zzz"}}, {{"redis-shake"}, nil}, {{name}, nil}} {
			conf.Options.FilterKeyWhitelist, conf.Options.FilterKeyBlacklist = cfg[0], cfg[1]
			if !filter.FilterKey(name) {
				return core.Violate("checkpoint-key-filtered", fmt.Sprintf("whitelist=%v,blacklist=%v", cfg[0] != nil, cfg[1] != nil), "checkpoint key %q passes the key filter (whitelist %v, blacklist %v)", name, cfg[0], cfg[1])
			}
		}
		conf.Options.FilterKeyWhitelist, conf.Options.FilterKeyBlacklist = nil, nil
		// the latency monitor's probe key for the range
		if c.Thorough() || i == 0 {
			if r-l >= 3 || c.Thorough() {
				pk := latencymonitor.VerifFindKeyInRange(l, r)
				if s := rc.KeySlot([]byte(pk)); s < l || s > r {
					return core.Violate("probe-key-range", "", "latency probe key %q hashes to slot %d, outside [%d,%d]", pk, s, l, r)
				}
			}
		}
		if l == r {
			c.Probe("single_slot_range")
		}
	}
	// the probe key of single-slot shards: the search has to go on until it finds a key (some slots need more than
	// 100 000 candidates); 64 tape-chosen slots in one run of ten
	if t.Choose(10) == 9 {
		for k := 0; k < 64; k++ {
			sl := t.Choose(16384)
			pk := latencymonitor.VerifFindKeyInRange(sl, sl)
			if got := rc.KeySlot([]byte(pk)); got != sl {
				return core.Violate("probe-key-range", "single-slot", "latency probe key %q for the single-slot shard [%d,%d] hashes to slot %d", pk, sl, sl, got)
			}
		}
		c.Probe("probe_key_single_slots")
	}
	c.Sample = map[string]interface{}{"keys": keys[:6], "ranges": fmt.Sprint(ranges)}
	c.Key = hashBytes([]byte(strings.Join(keys, "\x00") + fmt.Sprint(ranges)))
	c.Nontrivial = true
	for _, k := range keys {
		if strings.Count(k, "{") > 1 {
			c.Probe("several_open_braces")
		}
		if strings.Contains(k, "{}") {
			c.Probe("empty_tag")
		}
	}
	return nil
}

// braceShape abstracts a key to the arrangement of its braces (the violation class).
func braceShape(k string) string {
	var sb strings.Builder
	prevOther := false
	for i := 0; i < len(k); i++ {
		switch k[i] {
		case '{', '}':
			sb.WriteByte(k[i])
			prevOther = false
		default:
			if !prevOther {
				sb.WriteByte('x')
			}
			prevOther = true
		}
	}
	s := sb.String()
	if len(s) > 12 {
		s = s[:12] + "~"
	}
	return "shape=" + s
}

func init() {
	core.Register(&core.Prop{
		ID:         "C15",
		Run:        runC15,
		QuickRuns:  3000,
		PerProcess: 500,
		Rule: "one run = 40 tape-drawn keys (no/one/many braces, empty tags, unbalanced, nested, repeated, binary bytes) checked through utils.KeyToSlot and both CRC16 copies against the " +
			"specification text implemented bit by bit, plus 3 (40 thorough) slot ranges [l,r] (single slots, full range, edges) for which the shard checkpoint key must hash inside the range " +
			"and be rejected by the key filter under five filter configurations; distinct = hash of (keys, ranges); every run is non-trivial. " +
			"The mapping is a pure function: schedule and fault dimensions do not apply to this part (no simulator involvement)",
		Assumptions: []string{
			"7/8 of the runs are the pure-function part (no simulator involvement); 1/8 observe, in a simulated resume-enabled sync of a shard with slot boundaries, the checkpoint key actually used on the target and that it is not copied from the source; the slot filter of the full phase is exercised by C06/C07",
			"the cluster client library's GetSlot (used by ChoseSlotInRange) is third-party code and is only judged through the returned key",
		},
		RealVsStub: "shard part: real dbSync pipeline + checkpoint loader against simulated master/target; direct part: real: utils.KeyToSlot, utils crc16, latencymonitor crc16/findKeyInRange (reached through scratch-only export shims), utils.ChoseSlotInRange, filter.FilterKey; no simulated component is involved",
		ProbeNames: []string{"several_shards_at_once", "probe_key_single_slots", "single_slot_range", "several_open_braces", "empty_tag", "shard_sync_observed"},
	})
}
