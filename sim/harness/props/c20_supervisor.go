package props

import (
	"fmt"
	"sort"
	"strings"
	"time"

	"golang.org/x/sync/semaphore"

	"github.com/alibaba/RedisShake/pkg/simrt"
	conf "github.com/alibaba/RedisShake/redis-shake/configure"
	"github.com/alibaba/RedisShake/redis-shake/dbSync"
	"github.com/alibaba/RedisShake/redis-shake/dbSync/slot"
	"github.com/alibaba/RedisShake/redis-shake/dbSync/slotsupervisor"

	"verifsim/core"
	"verifsim/env"
	"verifsim/modelredis"
	"verifsim/simnet"
)

// C20 — source re-discovery selects a node that really is the master.

const (
	nbMaster = iota
	nbSlave
	nbRefuse
	nbError
	nbNoRole
	nbGarbage
)

var nbNames = []string{"master", "slave", "refuse", "error", "norole", "garbage"}

func runC20(c *core.Ctx) *core.Violation {
	if c.T.Choose(4) == 3 {
		return runC20Chain(c)
	}
	return runC20Single(c)
}

// runC20Chain: the property is about every (re)start. A real DbSyncer runs Sync() against 2-5 node models; each
// discovery is followed by a PSYNC that the chosen node refuses with an error reply, which makes the syncer restart and
// rediscover (its own retry budget ends the chain). Between restarts the master role moves to a tape-chosen node,
// possibly back to a node that was master before. Oracle, network level only: in every phase the PSYNC goes to the node
// that reports master in that phase, and the syncer never gives up while a known node reports master.
func runC20Chain(c *core.Ctx) *core.Violation {
	t := c.T
	c.Sub = "restart-chain"
	env.DefaultOptions(conf.TypeSync)
	lc := env.CaptureLog("info", 1<<20)
	conf.Options.SourceType = conf.RedisTypeCluster
	n := 2 + t.Choose(4)
	const phases = 6
	master := make([]int, phases)
	for p := range master {
		master[p] = t.Choose(n)
		if p >= 2 && t.Choose(3) == 0 {
			master[p] = master[p-2] // fail-back to an earlier master
		}
	}
	// transient fault of node i on its first probe of phase p: 0 none, else nbRefuse/nbError/nbNoRole
	transient := make([][]int, n)
	for i := range transient {
		transient[i] = make([]int, phases)
		for p := range transient[i] {
			if t.Choose(6) == 5 {
				transient[i][p] = []int{nbRefuse, nbError, nbNoRole}[t.Choose(3)]
			}
		}
	}
	addrs := make([]string, n)
	for i := range addrs {
		addrs[i] = fmt.Sprintf("10.1.0.%d:7000", i+1)
	}
	order := t.Perm(n)
	node := slot.SyncNode{Id: 0, Source: addrs[order[0]], SourcePassword: srcPassword, Target: []string{tgtAddr}, TargetPassword: tgtPassword, SlotLeftBoundary: 0, SlotRightBoundary: 5460}
	for _, k := range order[1:] {
		node.Slaves = append(node.Slaves, addrs[k])
	}
	var ms []string
	for _, m := range master {
		ms = append(ms, addrs[m])
	}
	c.Sample = map[string]interface{}{"sub": "restart-chain", "nodes": n, "source": node.Source, "slaves": node.Slaves, "master_by_phase": ms}
	c.Key = hashBytes([]byte(fmt.Sprint("chain", node.Source, node.Slaves, ms, transient)))

	phase := 0
	probes := make([][]int, n) // probes[i][p]
	for i := range probes {
		probes[i] = make([]int, phases+1)
	}
	type psync struct {
		phase int
		node  int
	}
	var psyncs []psync
	var viol *core.Violation
	s := simrt.Run(c.TT, t, simrt.Config{MaxSteps: 1000000, MaxSimTime: 2 * time.Hour, Trace: c.Trace}, func(s *simrt.Sim) {
		net := simnet.New(s)
		if t.Choose(2) == 1 {
			net.DefaultProfile = simnet.Profile{Split: 300, Latency: 300, MaxDelayMs: 50, ShortRead: 100}
		}
		ph := func() int {
			if phase >= phases {
				return phases - 1
			}
			return phase
		}
		for i := 0; i < n; i++ {
			i := i
			sv := modelredis.NewServer(s, net, fmt.Sprintf("node-%d", i), addrs[i])
			sv.Password = srcPassword
			faulty := func(kind int) bool { return transient[i][ph()] == kind && probes[i][ph()] == 0 }
			sv.L.Refuse = func(int) bool {
				if faulty(nbRefuse) {
					probes[i][ph()]++
					return true
				}
				return false
			}
			sv.Fail = func(conn, db int, args [][]byte) string {
				if strings.EqualFold(string(args[0]), "info") && faulty(nbError) {
					probes[i][ph()]++
					return "LOADING Redis is loading the dataset in memory"
				}
				return ""
			}
			sv.InfoReplication = func() string {
				norole := faulty(nbNoRole)
				probes[i][ph()]++
				switch {
				case norole:
					return "# Replication\r\nconnected_slaves:0\r\n"
				case i == master[ph()]:
					return "# Replication\r\nrole:master\r\nconnected_slaves:1\r\nmaster_repl_offset:100\r\n"
				default:
					return "# Replication\r\nrole:slave\r\nmaster_host:10.1.0.9\r\nmaster_link_status:up\r\n"
				}
			}
			sv.Special = func(_ *modelredis.Server, cn *modelredis.ConnState, args [][]byte) bool {
				if !strings.EqualFold(string(args[0]), "psync") {
					return false
				}
				psyncs = append(psyncs, psync{ph(), i})
				phase++ // the role moves before the next discovery
				cn.C.Write([]byte("-NOMASTERLINK Can't SYNC while not connected with my master\r\n"))
				return true
			}
		}
		proc := s.NewProc("tool")
		nd := node
		s.GoProc(proc, "syncer", func() {
			dbSync.NewDbSyncer(&nd, 9320, semaphore.NewWeighted(1)).Sync()
		})
		for i := 0; i < 12000 && s.Alive(proc) && len(psyncs) < phases; i++ {
			s.Sleep(50 * time.Millisecond)
		}
		if proc.Panicked {
			viol = core.Violate("go-panic", "restart-chain", "Go panic in the syncer: %s", firstLines(proc.PanicMsg, 6))
			return
		}
		for _, ps := range psyncs {
			if ps.node != master[ps.phase] {
				viol = core.Violate("non-master-selected", "restart-chain", "restart %d: PSYNC was sent to %s, but %s reports the master role then (masters by phase %v)", ps.phase, addrs[ps.node], addrs[master[ps.phase]], ms)
				return
			}
		}
		if len(psyncs) > 1 {
			c.Probe("rediscovery_after_restart")
		}
		for p := 2; p < len(psyncs); p++ {
			if master[p] != master[p-1] && master[p] == master[p-2] {
				c.Probe("fail_back_to_earlier_master")
			}
		}
		if proc.Exited {
			// the syncer gave up: fine once its restart budget is spent, never because no master was found
			last := lc.LastPanic()
			if strings.Contains(last, "find a master") || strings.Contains(strings.ToLower(last), "max retries") {
				viol = core.Violate("master-missed", "restart-chain", "restart %d: the syncer gave up (%s) although %s reports the master role; nodes probed in that phase: %v", phase, env.ErrClass(last), addrs[master[ph()]], probesIn(probes, ph(), addrs))
				return
			}
			if len(psyncs) == 0 {
				viol = core.Violate("abort", "restart-chain,err="+env.ErrClass(last), "the syncer aborted before its first PSYNC: %s", last)
			}
			return
		}
		if len(psyncs) < phases {
			viol = core.Violate("hang", "restart-chain", "the syncer neither progressed nor gave up within 600 s of simulated time (%d PSYNCs): %v", len(psyncs), s.TaskStates())
		}
	})
	c.Absorb(s)
	c.Log = lc.Tail(30)
	c.Nontrivial = len(psyncs) > 0
	return viol
}

func probesIn(probes [][]int, p int, addrs []string) []string {
	var out []string
	for i := range probes {
		out = append(out, fmt.Sprintf("%s:%d", addrs[i], probes[i][p]))
	}
	return out
}

func runC20Single(c *core.Ctx) *core.Violation {
	t := c.T
	env.DefaultOptions(conf.TypeSync)
	lc := env.CaptureLog("info", 1<<20)
	conf.Options.SourceType = conf.RedisTypeCluster
	n := 1 + t.Choose(5)
	topo := t.Choose(6) // 0 one master + replicas, 1 promoted replica, 2 no master, 3 several masters, 4 flaky, 5 master appears late
	const rounds = 12
	// behaviour[node][attempt]
	beh := make([][]int, n)
	for i := range beh {
		beh[i] = make([]int, rounds)
	}
	masterIdx := t.Choose(n)
	if topo == 1 && n > 1 {
		masterIdx = 1 + t.Choose(n-1) // the old Source (index 0) is now a replica
	}
	for i := 0; i < n; i++ {
		for a := 0; a < rounds; a++ {
			b := nbSlave
			switch topo {
			case 0, 1:
				if i == masterIdx {
					b = nbMaster
				}
			case 2:
				b = []int{nbSlave, nbSlave, nbRefuse, nbError, nbNoRole, nbGarbage}[t.Choose(6)]
			case 3:
				if t.Choose(2) == 0 {
					b = nbMaster
				}
			case 4:
				b = t.Choose(6)
			case 5:
				appear := 1 + t.Choose(8)
				_ = appear
				if i == masterIdx && a >= 1+i%3+masterIdx%2 {
					b = nbMaster
				} else {
					b = []int{nbSlave, nbRefuse, nbError, nbNoRole}[t.Choose(4)]
				}
			}
			// transient faults on any node
			if topo <= 1 && t.Choose(8) == 7 {
				b = []int{nbRefuse, nbError, nbNoRole, nbGarbage}[t.Choose(4)]
			}
			beh[i][a] = b
		}
	}
	addrs := make([]string, n)
	for i := range addrs {
		addrs[i] = fmt.Sprintf("10.1.0.%d:7000", i+1)
	}
	order := t.Perm(n) // any ordering of nodes: order[0] is the configured Source
	node := slot.SyncNode{Id: 0, Source: addrs[order[0]], SourcePassword: srcPassword, Target: []string{tgtAddr}, TargetPassword: tgtPassword, SlotLeftBoundary: 0, SlotRightBoundary: 5460}
	for _, k := range order[1:] {
		node.Slaves = append(node.Slaves, addrs[k])
	}
	var bs []string
	for i := range beh {
		var x []string
		for _, b := range beh[i][:8] {
			x = append(x, nbNames[b])
		}
		bs = append(bs, addrs[i]+":"+strings.Join(x, ","))
	}
	c.Sample = map[string]interface{}{"nodes": n, "topology": []string{"1master", "promoted-replica", "no-master", "several-masters", "flaky", "master-late"}[topo], "source": node.Source, "slaves": node.Slaves, "behaviour": bs}
	c.Key = hashBytes([]byte(fmt.Sprint(node.Source, node.Slaves, bs)))

	attempts := make([]int, n) // probes seen per node
	var viol *core.Violation
	s := simrt.Run(c.TT, t, simrt.Config{MaxSteps: 1000000, MaxSimTime: 2 * time.Hour, Trace: c.Trace}, func(s *simrt.Sim) {
		net := simnet.New(s)
		if t.Choose(2) == 1 {
			net.DefaultProfile = simnet.Profile{Split: 300, Latency: 300, MaxDelayMs: 50, ShortRead: 100}
		}
		for i := 0; i < n; i++ {
			i := i
			sv := modelredis.NewServer(s, net, fmt.Sprintf("node-%d", i), addrs[i])
			sv.Password = srcPassword
			cur := func() int {
				a := attempts[i]
				if a >= rounds {
					a = rounds - 1
				}
				return beh[i][a]
			}
			sv.L.Refuse = func(int) bool {
				if cur() == nbRefuse {
					attempts[i]++
					return true
				}
				return false
			}
			sv.Fail = func(conn, db int, args [][]byte) string {
				if strings.EqualFold(string(args[0]), "info") && cur() == nbError {
					attempts[i]++
					return "LOADING Redis is loading the dataset in memory"
				}
				return ""
			}
			sv.InfoReplication = func() string {
				b := cur()
				attempts[i]++
				switch b {
				case nbMaster:
					return "# Replication\r\nrole:master\r\nconnected_slaves:1\r\nmaster_repl_offset:100\r\n"
				case nbSlave:
					return "# Replication\r\nrole:slave\r\nmaster_host:10.1.0.9\r\nmaster_link_status:up\r\n"
				case nbNoRole:
					return "# Replication\r\nconnected_slaves:0\r\nmaster_repl_offset:0\r\n"
				default:
					return "\x00\x01garbage role master? no\r\n xrole:master\r\n"
				}
			}
		}
		proc := s.NewProc("tool")
		var res *slot.SyncNode
		var err error
		finished := false
		start := s.Now()
		s.GoProc(proc, "supervisor", func() {
			res, err = slotsupervisor.New(node).GetSlotState()
			finished = true
		})
		for i := 0; i < 13000 && !finished && s.Alive(proc); i++ {
			s.Sleep(50 * time.Millisecond)
		}
		took := s.Now() - start
		if proc.Panicked {
			viol = core.Violate("go-panic", "", "Go panic in GetSlotState: %s", firstLines(proc.PanicMsg, 6))
			return
		}
		if proc.Exited {
			viol = core.Violate("abort", "err="+env.ErrClass(lc.LastPanic()), "GetSlotState aborted the process: %s", lc.LastPanic())
			return
		}
		if !finished {
			viol = core.Violate("hang", "", "GetSlotState did not return within 600 s of simulated time: %v", s.TaskStates())
			return
		}
		for i, a := range attempts {
			if a > 32 {
				viol = core.Violate("unbounded-retries", "", "node %s was probed %d times", addrs[i], a)
				return
			}
		}
		// rounds actually played: every round probes every host once
		played := attempts[order[0]]
		var mastersIn func(r int) []string
		mastersIn = func(r int) []string {
			var ms []string
			for i := 0; i < n; i++ {
				if r < rounds && beh[i][r] == nbMaster {
					ms = append(ms, addrs[i])
				}
			}
			return ms
		}
		site := fmt.Sprintf("topology=%s", []string{"1master", "promoted-replica", "no-master", "several-masters", "flaky", "master-late"}[topo])
		if err != nil {
			// legal only if no node reported master in any round that was played
			for r := 0; r < played; r++ {
				if ms := mastersIn(r); len(ms) > 0 {
					viol = core.Violate("master-missed", site, "GetSlotState failed (%v) although %v reported the master role in round %d", err, ms, r)
					return
				}
			}
			c.Probe("no_master_error")
			if took > 600*time.Second {
				viol = core.Violate("slow-failure", "", "giving up took %v", took)
			}
			return
		}
		// success: decided in the last round played
		r := played - 1
		ms := mastersIn(r)
		isMaster := false
		for _, m := range ms {
			if m == res.Source {
				isMaster = true
			}
		}
		if !isMaster {
			viol = core.Violate("non-master-selected", site, "GetSlotState selected %s, which reported %q in the deciding round %d (masters then: %v)", res.Source, behOf(addrs, beh, res.Source, r), r, ms)
			return
		}
		var wantSlaves []string
		for _, a := range addrs {
			if a != res.Source {
				wantSlaves = append(wantSlaves, a)
			}
		}
		got := append([]string(nil), res.Slaves...)
		sort.Strings(got)
		sort.Strings(wantSlaves)
		if strings.Join(got, ",") != strings.Join(wantSlaves, ",") {
			viol = core.Violate("replica-list", site+fmt.Sprintf(",masters=%d", minI(len(ms), 2)), "selected %s; replicas listed %v, every other known node is %v", res.Source, got, wantSlaves)
			return
		}
		if len(ms) > 1 {
			c.Probe("several_masters_round")
		}
		if r > 0 {
			c.Probe("needed_retry")
		}
		if res.Source != node.Source {
			c.Probe("source_changed")
		}
	})
	c.Absorb(s)
	c.Log = lc.Tail(30)
	c.Nontrivial = true
	return viol
}

func behOf(addrs []string, beh [][]int, a string, r int) string {
	for i := range addrs {
		if addrs[i] == a && r < len(beh[i]) {
			return nbNames[beh[i][r]]
		}
	}
	return "unknown-node"
}

func init() {
	core.Register(&core.Prop{
		ID:         "C20",
		Run:        runC20,
		QuickRuns:  6000,
		PerProcess: 300,
		Rule: "one run = slotsupervisor.New(node).GetSlotState() with dials routed to 1-5 node models in any order; topologies: one master + replicas, promoted replica, no master, several masters, fully flaky, master appearing after some rounds; " +
			"per node and per attempt a tape-drawn behaviour: master, slave, dial refused, error reply, INFO without role line, garbage; oracle: on success the returned Source reported master in the deciding round and Slaves is every other known node; " +
			"an error only if no node reported master in any round played; at most 32 probes per node and 600 s of simulated time; distinct = hash of (topology, behaviours, order); every run is non-trivial",
		Assumptions: []string{
			"silent nodes (accept but never answer) are not generated: the statement lists unreachable, error and no-role nodes",
			"the bounds (32 probes, 600 s) are far above the tool's current 7 rounds / 21 s so that they do not mirror them",
		},
		RealVsStub: "real: slotsupervisor (GetSlotState, getRedisNodeState), redisConnWrapper.DefaultRedisConnFactory, utils.OpenNetConn/AuthPassword, redigo; simulated: TCP incl. refused dials, node models with per-attempt behaviour, clock (the back-off sleeps), scheduling",
		ProbeNames: []string{"no_master_error", "several_masters_round", "needed_retry", "source_changed", "rediscovery_after_restart", "fail_back_to_earlier_master"},
		FaultNames: []string{"dial_refused"},
	})
}
