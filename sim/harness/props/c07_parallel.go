package props

import (
	"bytes"
	"fmt"
	"os"
	"path/filepath"
	"sort"
	"strconv"
	"strings"
	"time"

	"github.com/alibaba/RedisShake/pkg/simrt"
	run "github.com/alibaba/RedisShake/redis-shake"
	conf "github.com/alibaba/RedisShake/redis-shake/configure"

	"verifsim/core"
	"verifsim/env"
	"verifsim/gen"
	"verifsim/modelredis"
	rc "verifsim/refcodec"
	"verifsim/simnet"
)

// C07 — parallel full sync restores every key exactly once into the right database.

type fullCase struct {
	file      []byte
	recs      []rc.Record
	f         FilterCfg
	slots     []int // full-sync slot filter (nil = none)
	policy    string
	planted   map[string]*rc.Value // "db/key" -> pre-existing value
	failKey   string               // key whose restore the target answers with an injected error ("" = none)
	failFired bool                 // the injected error was actually delivered
	failNth   int                  // which restoring command for failKey gets the error (1 = the first, 2 = the retry after DEL)
	noReplace bool                 // the target is configured as not supporting RESTORE ... REPLACE (rewrite = DEL + RESTORE)
	failMsg   string
}

// expectedFull computes which (db,key) the target must hold after a successful full phase.
type expKey struct {
	db  int
	key string
	val *rc.Value
	exp uint64
}

func (fc *fullCase) expected(slotFilter bool) (keys []expKey, scripts int, mustFail bool) {
	for _, r := range fc.recs {
		if r.Lua {
			if !fc.f.FilterLua {
				scripts++
			}
			continue
		}
		if !fc.f.dbPasses(int(r.DB)) || !fc.f.KeyPasses(r.Key) {
			continue
		}
		if slotFilter && fc.slots != nil {
			ok := false
			for _, s := range fc.slots {
				if s == rc.KeySlot(r.Key) {
					ok = true
				}
			}
			if !ok {
				continue
			}
		}
		db := int(r.DB)
		if fc.f.TargetDB != -1 {
			db = fc.f.TargetDB
		}
		id := fmt.Sprintf("%d/%s", db, r.Key)
		if old, ok := fc.planted[id]; ok {
			switch fc.policy {
			case "none":
				mustFail = true
				keys = append(keys, expKey{db, string(r.Key), old, 0})
				continue
			case "ignore":
				keys = append(keys, expKey{db, string(r.Key), old, 0})
				continue
			}
		}
		if string(r.Key) == fc.failKey && (fc.failNth <= 1 || fc.failFired) {
			// (an error aimed at the second attempt is only delivered on routes that make one: RESTORE, BUSYKEY, DEL,
			// RESTORE - the element-wise route deletes first and restores once)
			mustFail = true
		}
		keys = append(keys, expKey{db, string(r.Key), r.Val, r.ExpireAt})
	}
	return
}

func genFullCase(c *core.Ctx, maxKeys int) *fullCase {
	t := c.T
	fc := &fullCase{f: FilterCfg{TargetDB: -1}, planted: map[string]*rc.Value{}}
	opts := gen.RDBOpts{MaxKeys: maxKeys, MaxDBs: 4, NoModuleAux: true, MinVersion: 7, MaxElem: 400, FutureOnly: true, NoIdleFreq: t.Choose(2) == 0,
		Kinds: []rc.Kind{rc.KString, rc.KList, rc.KSet, rc.KZSet, rc.KHash}}
	fc.file, fc.recs, _, _ = gen.RDB(t, opts)
	switch t.Choose(5) {
	case 1:
		fc.f.DBWhite = []string{strconv.Itoa(t.Choose(4))}
	case 2:
		fc.f.DBBlack = []string{strconv.Itoa(t.Choose(4))}
	}
	switch t.Choose(5) {
	case 1:
		fc.f.KeyWhite = []string{"key:", "{tag"}
	case 2:
		fc.f.KeyBlack = []string{"key:1", "k"}
	}
	if t.Choose(4) == 3 {
		fc.f.TargetDB = t.Choose(5)
	}
	fc.f.FilterLua = t.Choose(4) == 3
	fc.policy = []string{"none", "rewrite", "ignore"}[t.Choose(3)]
	fc.noReplace = t.Choose(4) == 3
	return fc
}

func (fc *fullCase) applyConf() {
	conf.Options.FilterDBWhitelist, conf.Options.FilterDBBlacklist = fc.f.DBWhite, fc.f.DBBlack
	conf.Options.FilterKeyWhitelist, conf.Options.FilterKeyBlacklist = fc.f.KeyWhite, fc.f.KeyBlack
	conf.Options.FilterLua = fc.f.FilterLua
	conf.Options.TargetDB = fc.f.TargetDB
	conf.Options.KeyExists = fc.policy
	conf.Options.TargetVersion = "5.0.7"
	conf.Options.TargetReplace = !fc.noReplace
	var ss []string
	for _, s := range fc.slots {
		ss = append(ss, strconv.Itoa(s))
	}
	conf.Options.FilterSlot = ss
}

// plant puts pre-existing keys on the target for a few of the records (policy cases).
func (fc *fullCase) plant(c *core.Ctx, tgt *modelredis.Server) {
	t := c.T
	for _, r := range fc.recs {
		if r.Lua || t.Choose(6) != 5 {
			continue
		}
		db := int(r.DB)
		if fc.f.TargetDB != -1 {
			db = fc.f.TargetDB
		}
		v := &rc.Value{Kind: r.Val.Kind}
		switch r.Val.Kind {
		case rc.KString:
			v.Str = []byte("old-value")
		case rc.KList:
			v.List = [][]byte{[]byte("old")}
		case rc.KSet:
			v.Set = [][]byte{[]byte("old")}
		case rc.KHash:
			v.Hash = []rc.Pair{{F: []byte("old"), V: []byte("v")}}
		case rc.KZSet:
			v.ZSet = []rc.ZPair{{M: []byte("old"), S: 1}}
		}
		fc.planted[fmt.Sprintf("%d/%s", db, r.Key)] = v
		tgt.Plant(db, string(r.Key), &modelredis.Entry{Val: cloneValue(v)})
	}
}

// judgeFull compares the target with the expectation; inside the bubble.
// retried: an injected connection reset made the syncer report the failure and start the full phase again; the
// per-key and per-script counts are then per attempt, and only the final dataset is judged.
func (fc *fullCase) judgeFull(tgt *modelredis.Server, slotFilter bool, site string, retried bool) *core.Violation {
	keys, scripts, _ := fc.expected(slotFilter)
	want := map[string]bool{}
	for _, k := range keys {
		want[fmt.Sprintf("%d/%s", k.db, k.key)] = true
		got := tgt.Get(k.db, k.key)
		if got == nil {
			return core.Violate("key-missing", site, "key %q must be in db %d of the target after the full phase, it is not", clipS([]byte(k.key)), k.db)
		}
		if ok, why := rc.Equal(got.Val, k.val); !ok {
			return core.Violate("key-differs", site, "key %q in db %d: %s", clipS([]byte(k.key)), k.db, why)
		}
		if k.exp == 0 && got.ExpireAt != 0 {
			return core.Violate("key-ttl", site+",unexpected", "key %q has no expiry on the source but expires on the target", clipS([]byte(k.key)))
		}
		if k.exp != 0 && (got.ExpireAt < int64(k.exp) || got.ExpireAt > int64(k.exp)+120000) {
			return core.Violate("key-ttl", site+",wrong", "key %q: expiry %d, source says %d", clipS([]byte(k.key)), got.ExpireAt, k.exp)
		}
	}
	// pre-existing keys whose source record is filtered must simply still be there, untouched
	for _, id := range sortedKeysV(fc.planted) {
		old := fc.planted[id]
		if want[id] {
			continue
		}
		want[id] = true
		i := strings.IndexByte(id, '/')
		db, _ := strconv.Atoi(id[:i])
		got := tgt.Get(db, id[i+1:])
		if got == nil {
			return core.Violate("filtered-key-touched", site, "pre-existing key %q (its source record is filtered) disappeared from db %d", clipS([]byte(id[i+1:])), db)
		}
		if ok, why := rc.Equal(got.Val, old); !ok {
			return core.Violate("filtered-key-touched", site, "pre-existing key %q (its source record is filtered) changed: %s", clipS([]byte(id[i+1:])), why)
		}
	}
	for _, db := range tgt.DBIDs() {
		for _, k := range tgt.Keys(db) {
			if strings.HasPrefix(k, "redis-shake-checkpoint") {
				continue
			}
			if !want[fmt.Sprintf("%d/%s", db, k)] {
				return core.Violate("key-unexpected", site, "key %q is in db %d of the target: filtered, or belongs to another database", clipS([]byte(k)), db)
			}
		}
	}
	if len(tgt.Scripts) != scripts && !(retried && len(tgt.Scripts) > scripts) {
		return core.Violate("scripts", site+fmt.Sprintf(",filter.lua=%v", fc.f.FilterLua), "%d Lua script(s) loaded on the target, the RDB carries %d to load", len(tgt.Scripts), scripts)
	}
	if retried {
		return nil
	}
	// exactly once: one RESTORE per key that took the RESTORE route
	count := map[string]int{}
	for _, a := range tgt.Applied {
		if a.Name() == "restore" && !a.IsError {
			count[fmt.Sprintf("%d/%s", a.DB, a.Args[1])]++
		}
	}
	for _, k := range sortedKeysI(count) {
		n := count[k]
		if n > 1 {
			return core.Violate("restored-twice", site, "%s was restored %d times", k, n)
		}
	}
	return nil
}

func runC07(c *core.Ctx) *core.Violation {
	if c.T.Choose(2) == 1 {
		return runC07Restore(c)
	}
	return runC07Sync(c)
}

func injectFailure(c *core.Ctx, fc *fullCase, tgt *modelredis.Server) {
	t := c.T
	if t.Choose(5) != 4 {
		return
	}
	var cands, retryCands []string
	for _, r := range fc.recs {
		if !r.Lua && fc.f.dbPasses(int(r.DB)) && fc.f.KeyPasses(r.Key) {
			db := int(r.DB)
			if fc.f.TargetDB != -1 {
				db = fc.f.TargetDB
			}
			if _, pre := fc.planted[fmt.Sprintf("%d/%s", db, r.Key)]; pre {
				if fc.policy == "rewrite" && fc.noReplace {
					// rewrite without REPLACE: BUSYKEY, DEL, RESTORE again - the error can hit that second RESTORE
					retryCands = append(retryCands, string(r.Key))
				}
				continue // otherwise the key_exists policy already decides about this key
			}
			cands = append(cands, string(r.Key))
		}
	}
	fc.failNth = 1
	if len(retryCands) > 0 && t.Choose(2) == 1 {
		cands, fc.failNth = retryCands, 2
	}
	if len(cands) == 0 {
		return
	}
	fc.failKey = cands[t.Choose(len(cands))]
	fc.failMsg = []string{"OOM command not allowed when used memory > 'maxmemory'.", "ERR DUMP payload version or checksum are wrong", "LOADING Redis is loading the dataset in memory"}[t.Choose(3)]
	seen := 0
	tgt.Fail = func(conn, db int, args [][]byte) string {
		n := strings.ToLower(string(args[0]))
		if (n == "restore" || n == "rpush" || n == "hset" || n == "sadd" || n == "zadd" || n == "set") && len(args) > 1 && string(args[1]) == fc.failKey {
			seen++
			if seen < fc.failNth {
				return "" // the first attempt is answered normally (BUSYKEY for the existing key)
			}
			c.Fault("target_error_reply")
			fc.failFired = true
			if fc.failNth == 2 {
				c.Probe("error_on_second_restore")
			}
			return fc.failMsg
		}
		return ""
	}
}

// injectCut arranges (1 run in 8, never together with an injected error reply) for one of the tool's target
// connections to be reset after a tape-chosen number of bytes written by the tool. A reset worker connection is a
// failing restore unless it lands after the last byte: the run must then report a failure, never finish as a success
// with a key missing. Returns whether a cut was armed; *victim is the endpoint it was armed on (CutFired tells whether it happened).
func injectCut(c *core.Ctx, fc *fullCase, tgt *modelredis.Server, victim **simnet.Conn) bool {
	t := c.T
	if fc.failKey != "" || t.Choose(8) != 7 {
		return false
	}
	which := t.Choose(10)
	after := int64(20 + t.Choose(4000))
	prev := tgt.L.OnAccept
	n := 0
	tgt.L.OnAccept = func(cl, sv *simnet.Conn) {
		if prev != nil {
			prev(cl, sv)
		}
		if n == which {
			cl.CutAfterTotal(after)
			*victim = cl
		}
		n++
	}
	return true
}

func runC07Sync(c *core.Ctx) *core.Violation {
	t := c.T
	c.Sub = "sync-full"
	env.DefaultOptions(conf.TypeSync)
	lc := env.CaptureLog("info", 4<<20)
	maxKeys := 24
	if c.Thorough() {
		maxKeys = 80
	}
	fc := genFullCase(c, maxKeys)
	if t.Choose(5) == 4 && len(fc.recs) > 0 {
		// slot filter built from the reference slot of some keys
		for _, r := range fc.recs {
			if !r.Lua && t.Choose(2) == 1 {
				fc.slots = append(fc.slots, rc.KeySlot(r.Key))
			}
		}
		if fc.slots == nil {
			fc.slots = []int{0}
		}
	}
	fc.applyConf()
	conf.Options.Parallel = 1 + t.Choose(8)
	conf.Options.ResumeFromBreakPoint = t.Choose(3) == 2
	cfg := simrt.Config{MaxSteps: 4000000, MaxSimTime: 2 * time.Hour, Trace: c.Trace}
	if t.Choose(2) == 1 {
		cfg.Sticky = 300 + t.Choose(650)
	}
	netMode := t.Choose(3)
	c.Sample = map[string]interface{}{"sub": "sync-full", "parallel": conf.Options.Parallel, "records": len(fc.recs), "policy": fc.policy, "target_db": fc.f.TargetDB,
		"filters": fmt.Sprintf("dbW=%v dbB=%v keyW=%v keyB=%v lua=%v slots=%d", fc.f.DBWhite, fc.f.DBBlack, fc.f.KeyWhite, fc.f.KeyBlack, fc.f.FilterLua, len(fc.slots)), "net_mode": netMode}
	var e *SyncEnv
	var viol *core.Violation
	var diag []string
	reachedIncr := false
	cutArmed, cutFired := false, false
	var victim *simnet.Conn
	s := simrt.Run(c.TT, t, cfg, func(s *simrt.Sim) {
		e = NewSyncEnv(c, s, lc)
		if netMode >= 1 {
			e.Tgt.L.ToClient = simnet.Profile{Split: 300, Latency: 600, MaxDelayMs: 1 + t.Choose(80), ShortRead: 100}
			e.Tgt.L.ToServer = simnet.Profile{Split: 300, Latency: 600, MaxDelayMs: 1 + t.Choose(80)}
		}
		fc.plant(c, e.Tgt)
		injectFailure(c, fc, e.Tgt)
		cutArmed = injectCut(c, fc, e.Tgt, &victim)
		e.Src.RDB = fc.file
		e.Src.Stream = respCmd(bs("SELECT", "0")...)
		e.Src.Stream = append(e.Src.Stream, respCmd(bs("SET", "incr-marker", "1")...)...)
		e.StartTool()
		// the full phase is over when the tool opens its incremental connection (or dies)
		e.WaitUntil(600*time.Second, 100*time.Millisecond, func() bool {
			for _, ph := range e.ConnPhase {
				if ph == "incr" {
					return true
				}
			}
			return false
		})
		for _, ph := range e.ConnPhase {
			if ph == "incr" {
				reachedIncr = true
			}
		}
		diag = e.Diag()
		cutFired = victim != nil && victim.CutFired
		_, _, mustFail := fc.expected(true)
		if reachedIncr {
			// completion was signalled: every entry must have been processed, and no failure may be hidden
			if mustFail {
				viol = core.Violate("failure-hidden", "sync,policy="+fc.policy+failSite(fc), "a restore failed (%s) but the run went on to the incremental phase as a success", failWhat(fc))
				return
			}
			delete(e.Tgt.DBs[0], "incr-marker")
			restarted := strings.Contains(lc.String(), "Restarting DbSyncer")
			viol = fc.judgeFull(e.Tgt, true, "sync", cutFired && restarted)
			if viol != nil && cutFired {
				viol = core.Violate("failure-hidden", fmt.Sprintf("sync,conn-reset,restarted=%v", restarted), "a target connection was reset during the full phase, yet the run went on to the incremental phase as a success with: %s", viol.Detail)
			}
			if cutFired && restarted {
				c.Probe("conn_reset_full_phase_redone")
			}
		} else if !mustFail {
			if cutFired && e.ToolAborted() {
				c.Probe("conn_reset_reported")
			} else if e.ToolAborted() {
				viol = core.Violate("abort", "sync,err="+env.ErrClass(e.AbortText()), "full sync aborted without any failing restore: %s", e.AbortText())
			} else {
				viol = core.Violate("full-sync-hangs", "sync", "the full phase neither completed nor failed within 600 s: %v", s.TaskStates())
			}
		} else {
			c.Probe("failure_reported")
		}
	})
	c.Absorb(s)
	c.Log = diag
	_ = cutArmed
	if viol == nil && e.Tool.Panicked && !cutFired {
		return core.Violate("go-panic", "sync-full", "Go panic: %s", firstLines(e.Tool.PanicMsg, 6))
	}
	if conf.Options.Parallel > 1 {
		c.Probe("parallel_gt1")
	}
	if fc.f.TargetDB != -1 {
		c.Probe("target_db")
	}
	c.Nontrivial = len(fc.recs) > 0
	return viol
}

func failSite(fc *fullCase) string {
	if fc.failKey != "" {
		return ",injected-error"
	}
	return ",busykey"
}

func failWhat(fc *fullCase) string {
	if fc.failKey != "" {
		return fmt.Sprintf("target answered %q for key %q", fc.failMsg, clipS([]byte(fc.failKey)))
	}
	return "key_exists=none and the key already exists"
}

func runC07Restore(c *core.Ctx) *core.Violation {
	t := c.T
	c.Sub = "restore-mode"
	env.DefaultOptions(conf.TypeRestore)
	lc := env.CaptureLog("info", 4<<20)
	maxKeys := 24
	if c.Thorough() {
		maxKeys = 80
	}
	fc := genFullCase(c, maxKeys)
	fc.applyConf()
	conf.Options.Parallel = 1 + t.Choose(8)
	conf.Options.HttpProfile = -1
	conf.Options.SourceRdbParallel = 1
	conf.Options.TargetAddressList = []string{tgtAddr}
	conf.Options.TargetPasswordRaw = tgtPassword
	in := filepath.Join(c.TmpDir, "input.rdb")
	if err := os.WriteFile(in, fc.file, 0644); err != nil {
		panic(err)
	}
	conf.Options.SourceRdbInput = []string{in}
	// further input files (disjoint key names), restored by their own routines at the same time (source.rdb.parallel)
	nExtra := t.Choose(3)
	for x := 0; x < nExtra; x++ {
		var items []rc.Item
		nk := 1 + t.Choose(6)
		lastDB := -1
		for k := 0; k < nk; k++ {
			db := t.Choose(4)
			if db != lastDB {
				items = append(items, rc.Item{Kind: "selectdb", DB: uint64(db)})
				lastDB = db
			}
			key := []byte(fmt.Sprintf("input%d:key:%d", x+2, k))
			switch t.Choose(3) {
			case 0:
				items = append(items, rc.Item{Kind: "key", Key: key, Val: &rc.Value{Kind: rc.KString, Str: []byte(fmt.Sprintf("value-%d-%d", x, k))}, Type: rc.TString})
			case 1:
				items = append(items, rc.Item{Kind: "key", Key: key, Val: gen.ValueOf(t, rc.KList, 60), Type: rc.TList})
			default:
				items = append(items, rc.Item{Kind: "key", Key: key, Val: gen.ValueOf(t, rc.KHash, 60), Type: rc.THash})
			}
		}
		file2, recs2 := rc.WriteRDB(9, items, t, true)
		p2 := filepath.Join(c.TmpDir, fmt.Sprintf("input%d.rdb", x+2))
		if err := os.WriteFile(p2, file2, 0644); err != nil {
			panic(err)
		}
		conf.Options.SourceRdbInput = append(conf.Options.SourceRdbInput, p2)
		fc.recs = append(fc.recs, recs2...)
	}
	if nExtra > 0 {
		conf.Options.SourceRdbParallel = 1 + t.Choose(3)
	}
	cfg := simrt.Config{MaxSteps: 4000000, MaxSimTime: 2 * time.Hour, Trace: c.Trace}
	if t.Choose(2) == 1 {
		cfg.Sticky = 300 + t.Choose(650)
	}
	netMode := t.Choose(2)
	if t.Choose(3) == 2 {
		cfg.IOStall = 5 + t.Choose(60) // slow input file: reads stall for 50 ms - 3 s
	}
	c.Sample = map[string]interface{}{"io_stall_per_mille": cfg.IOStall, "sub": "restore-mode", "parallel": conf.Options.Parallel, "inputs": len(conf.Options.SourceRdbInput), "rdb_parallel": conf.Options.SourceRdbParallel, "records": len(fc.recs), "policy": fc.policy, "target_db": fc.f.TargetDB,
		"filters": fmt.Sprintf("dbW=%v dbB=%v keyW=%v keyB=%v lua=%v", fc.f.DBWhite, fc.f.DBBlack, fc.f.KeyWhite, fc.f.KeyBlack, fc.f.FilterLua), "net_mode": netMode}
	var viol *core.Violation
	var proc *simrt.Proc
	var tgt *modelredis.Server
	cutArmed, cutFired := false, false
	var victim *simnet.Conn
	s := simrt.Run(c.TT, t, cfg, func(s *simrt.Sim) {
		net := simnet.New(s)
		tgt = modelredis.NewServer(s, net, "target", tgtAddr)
		tgt.Password = tgtPassword
		if netMode == 1 {
			tgt.L.ToClient = simnet.Profile{Split: 300, Latency: 600, MaxDelayMs: 1 + t.Choose(80), ShortRead: 100}
			tgt.L.ToServer = simnet.Profile{Split: 300, Latency: 600, MaxDelayMs: 1 + t.Choose(80)}
		}
		fc.plant(c, tgt)
		injectFailure(c, fc, tgt)
		cutArmed = injectCut(c, fc, tgt, &victim)
		proc = s.NewProc("tool")
		done := false
		s.GoProc(proc, "restore-main", func() {
			(&run.CmdRestore{}).Main()
			done = true
		})
		for i := 0; i < 6000 && !done && s.Alive(proc); i++ {
			s.Sleep(100 * time.Millisecond)
		}
		_, _, mustFail := fc.expected(false)
		cutFired = victim != nil && victim.CutFired
		switch {
		case done && mustFail:
			viol = core.Violate("failure-hidden", "restore,policy="+fc.policy+failSite(fc), "a restore failed (%s) but CmdRestore.Main returned as if everything was restored", failWhat(fc))
		case done:
			viol = fc.judgeFull(tgt, false, "restore", false)
			if viol != nil && cutFired {
				viol = core.Violate("failure-hidden", "restore,conn-reset", "a target connection was reset, yet CmdRestore.Main returned as if everything was restored, with: %s", viol.Detail)
			}
		case !mustFail && cutFired && (proc.Exited || proc.Panicked):
			c.Probe("conn_reset_reported")
		case !mustFail && (proc.Exited || proc.Panicked):
			txt := lc.LastPanic()
			if proc.Panicked {
				txt = firstLines(proc.PanicMsg, 5)
			}
			viol = core.Violate("abort", "restore,err="+env.ErrClass(txt), "restore mode aborted without any failing restore: %s", txt)
		case !mustFail:
			viol = core.Violate("restore-hangs", "", "CmdRestore.Main did not return within 600 s: %v", s.TaskStates())
		default:
			c.Probe("failure_reported")
		}
	})
	c.Absorb(s)
	c.Log = lc.Tail(40)
	_, _ = bytes.Equal, cutArmed
	if conf.Options.Parallel > 1 {
		c.Probe("parallel_gt1")
	}
	if fc.f.TargetDB != -1 {
		c.Probe("target_db")
	}
	if len(conf.Options.SourceRdbInput) > 1 && conf.Options.SourceRdbParallel > 1 {
		c.Probe("several_inputs_at_once")
	}
	c.Nontrivial = len(fc.recs) > 0
	return viol
}

func init() {
	core.Register(&core.Prop{
		ID:         "C07",
		Run:        runC07,
		QuickRuns:  5000,
		PerProcess: 100,
		Rule: "one run = the full phase of DbSyncer.Sync() (FULLRESYNC) or CmdRestore.Main() on a real file, parallel = 1..8 workers, an RDB of up to 24 (80 thorough) keys of all classic types/encodings " +
			"spread over up to 4 databases in any order with Lua scripts, x db/key/lua/slot filters x target.db x key_exists with pre-existing keys x per-connection latency/segmentation; 20% of runs make the " +
			"target answer one key's restore with OOM/LOADING/checksum errors; oracle: if completion is signalled (incremental connection opened / Main returned) every non-filtered key is in its own database " +
			"(or target.db) with the source value and TTL, nothing else is, each RESTORE happened once, every script is loaded — and no failed restore may be hidden; distinct = hash of (schedule, workload); non-trivial = RDB has records",
		Assumptions: []string{
			"RDB expiries are in the future (expired keys are C02's subject); key names are unique across databases so that target.db cannot collide",
			"a failing run may end by abort, by retry-until-give-up, or by never signalling completion; only 'completion signalled although a restore failed' is a violation",
		},
		RealVsStub: "real: dbSync.syncRDBFile + restore workers, run.CmdRestore (real input file), utils.NewRDBLoader/RestoreRdbEntry, filter, redigo; simulated: TCP, target model with injected error replies, master model, clock, scheduling, process exit",
		ProbeNames: []string{"parallel_gt1", "target_db", "failure_reported", "conn_reset_reported", "conn_reset_full_phase_redone", "several_inputs_at_once", "error_on_second_restore"},
		FaultNames: []string{"target_error_reply", "conn_cut", "io_stall", "latency", "segment_split"},
	})
}

func sortedKeysV(m map[string]*rc.Value) []string {
	var ks []string
	for k := range m {
		ks = append(ks, k)
	}
	sort.Strings(ks)
	return ks
}

func sortedKeysI(m map[string]int) []string {
	var ks []string
	for k := range m {
		ks = append(ks, k)
	}
	sort.Strings(ks)
	return ks
}
