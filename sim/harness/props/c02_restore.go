package props

import (
	"bufio"
	"bytes"
	"fmt"
	"os"
	"strings"
	"time"

	"github.com/alibaba/RedisShake/pkg/libs/atomic2"
	"github.com/alibaba/RedisShake/pkg/rdb"
	"github.com/alibaba/RedisShake/pkg/simrt"
	utils "github.com/alibaba/RedisShake/redis-shake/common"
	conf "github.com/alibaba/RedisShake/redis-shake/configure"

	"verifsim/core"
	"verifsim/env"
	"verifsim/gen"
	"verifsim/modelredis"
	rc "verifsim/refcodec"
	"verifsim/simnet"
)

// The two passwords every scenario configures. C19 replaces them per run with fresh sentinels.
var (
	srcPassword = "SRCpw-7f3a9c1e5b"
	tgtPassword = "TGTpw-d41d8cd98f"
)

const epochMs = 946684800000 // the bubble's clock starts at 2000-01-01T00:00:00Z

// targetFlavours: what the modelled target understands, by version.
type flavour struct {
	version    string
	written    []string // how a user may write that version in target.version
	rdbVersion int
	replace    bool
	idleFreq   bool
	known      func(t int) bool
}

var flavours = []flavour{
	{"5.0.7", []string{"5.0.7", "5.0", "5"}, 9, true, true, func(t int) bool { return (t >= 0 && t <= 5) || (t >= 9 && t <= 15) }},
	{"4.0.14", []string{"4.0.14", "4.0", "4"}, 8, true, false, func(t int) bool { return (t >= 0 && t <= 5) || (t >= 9 && t <= 14) }},
	{"3.2.12", []string{"3.2.12", "3.2"}, 7, true, false, func(t int) bool { return (t >= 0 && t <= 4) || (t >= 9 && t <= 14) }},
	{"2.8.24", []string{"2.8.24", "2.8"}, 6, false, false, func(t int) bool { return (t >= 0 && t <= 4) || (t >= 9 && t <= 13) }},
	{"6.0.9", []string{"6.0.9", "6.0", "6"}, 9, true, true, func(t int) bool { return (t >= 0 && t <= 5) || (t >= 9 && t <= 15) }},
}

// loadEntries parses an RDB with the real loader (outside any simulation: pure function of the bytes).
func loadEntries(file []byte) ([]*rdb.BinEntry, error) {
	l := rdb.NewLoader(bytes.NewReader(file))
	if err := l.Header(); err != nil {
		return nil, err
	}
	var out []*rdb.BinEntry
	for {
		e, err := l.NextBinEntry()
		if err != nil {
			return nil, err
		}
		if e == nil {
			break
		}
		out = append(out, e)
	}
	return out, l.Footer()
}

func kindName(t int) string {
	switch t {
	case rc.TString:
		return "string"
	case rc.TList, rc.TListZiplist, rc.TQuicklist:
		return "list"
	case rc.TSet, rc.TSetIntset:
		return "set"
	case rc.TZSet, rc.TZSet2, rc.TZSetZiplist:
		return "zset"
	case rc.THash, rc.THashZipmap, rc.THashZiplist:
		return "hash"
	}
	return "stream"
}

func cloneValue(v *rc.Value) *rc.Value {
	if v == nil {
		return nil
	}
	c := &rc.Value{Kind: v.Kind, Str: append([]byte(nil), v.Str...), Stream: append([]byte(nil), v.Stream...)}
	for _, x := range v.List {
		c.List = append(c.List, append([]byte(nil), x...))
	}
	for _, x := range v.Set {
		c.Set = append(c.Set, append([]byte(nil), x...))
	}
	for _, x := range v.Hash {
		c.Hash = append(c.Hash, rc.Pair{F: append([]byte(nil), x.F...), V: append([]byte(nil), x.V...)})
	}
	for _, x := range v.ZSet {
		c.ZSet = append(c.ZSet, rc.ZPair{M: append([]byte(nil), x.M...), S: x.S})
	}
	return c
}

func runC02(c *core.Ctx) *core.Violation {
	t := c.T
	env.DefaultOptions(conf.TypeRestore)
	lc := env.CaptureLog([]string{"info", "debug", "warn", "error"}[t.Choose(4)], 1<<20)

	// ---- configuration
	fl := flavours[t.Choose(len(flavours))]
	userGiven := t.Choose(3) == 2
	if userGiven {
		conf.Options.TargetVersion = fl.written[t.Choose(len(fl.written))]
		conf.Options.BigKeyThreshold = 1 // sanitize does this when target.version is given
	} else {
		conf.Options.TargetVersion = fl.version
	}
	tv := conf.Options.TargetVersion
	conf.Options.TargetReplace = strings.HasPrefix(tv, "4.") || strings.HasPrefix(tv, "3.") || strings.HasPrefix(tv, "5.")
	conf.Options.KeyExists = []string{"none", "rewrite", "ignore"}[t.Choose(3)]
	conf.Options.TargetPasswordRaw = tgtPassword
	shiftMs := int64(0)
	if t.Choose(4) == 3 {
		shiftMs = int64(t.Choose(2000001)) - 1000000
		conf.Options.ShiftTime = time.Duration(shiftMs) * time.Millisecond
	}
	conf.Options.ReplaceHashTag = t.Choose(6) == 5
	conf.Options.Metric = t.Choose(2) == 0

	// ---- the source key(s)
	maxVer := fl.rdbVersion
	if t.Choose(4) == 3 {
		maxVer = 9 // source newer than target: value types the target may not know
	}
	kinds := []rc.Kind{rc.KString, rc.KList, rc.KSet, rc.KZSet, rc.KHash}
	if fl.known(rc.TStream) {
		kinds = append(kinds, rc.KStream)
	}
	opts := gen.RDBOpts{MaxKeys: 3, MaxDBs: 1, Kinds: kinds, NoMeta: true, NowMs: uint64(epochMs + shiftMs), MaxElem: 3000}
	if t.Choose(6) == 5 {
		opts.MaxElem = 70000 // elements around 8 KiB, 16 KiB and 64 KiB (14-bit and 32-bit length forms inside ziplists)
	}
	big := t.Chance(10)
	var file []byte
	var recs []rc.Record
	var version int
	if big {
		c.Sub = "chunked-hash"
		if shiftMs == 0 && t.Choose(2) == 1 {
			// chunked hashes are rare and expensive: give half of them a time shift, so that the per-chunk TTL path is covered
			shiftMs = int64(t.Choose(2000001)) - 1000000
			conf.Options.ShiftTime = time.Duration(shiftMs) * time.Millisecond
		}
		it := rc.Item{Kind: "key", Key: []byte("big:hash"), Val: bigHash(t), Type: rc.THash}
		switch t.Choose(4) {
		case 1, 3:
			it.ExpireMs = uint64(epochMs+shiftMs) + 1000*uint64(1+t.Choose(1000))
		case 2:
			it.ExpireMs = uint64(epochMs+shiftMs) - 1000*uint64(1+t.Choose(1000))
		}
		version = 9
		file, recs = rc.WriteRDB(9, []rc.Item{{Kind: "selectdb", DB: 0}, it}, plainChooser{}, true)
	} else if !fl.known(rc.TZSet2) && t.Choose(4) == 3 {
		// a value type the target does not know: RESTORE answers "Bad data format" and the fallback route runs
		c.Sub = "unknown-type-fallback"
		it := rc.Item{Kind: "key", Key: gen.KeyName(t, 0), Val: gen.ValueOf(t, rc.KZSet, 300), Type: rc.TZSet2}
		switch t.Choose(3) {
		case 1:
			it.ExpireMs = uint64(epochMs+shiftMs) + 1000*uint64(1+t.Choose(1000)) + uint64(t.Choose(1000))
		case 2:
			it.ExpireMs = uint64(epochMs+shiftMs) - 1000*uint64(1+t.Choose(1000))
		}
		version = 9
		file, recs = rc.WriteRDB(9, []rc.Item{{Kind: "selectdb", DB: 0}, it}, t, true)
	} else {
		for tries := 0; ; tries++ {
			file, recs, version, _ = gen.RDB(t, opts)
			if len(recs) > 0 && version <= maxVer || tries > 6 {
				break
			}
		}
		if len(recs) == 0 {
			c.Sub = "empty"
			return nil
		}
	}
	entries, err := loadEntries(file)
	if err != nil {
		return core.Violate("harness-parse", "", "loader failed on a generated file: %v", err)
	}

	// threshold relative to the first payload
	if !userGiven && !big {
		l := uint64(len(entries[0].Value))
		switch t.Choose(5) {
		case 1:
			conf.Options.BigKeyThreshold = 1
		case 2:
			conf.Options.BigKeyThreshold = l - 1
		case 3:
			conf.Options.BigKeyThreshold = l
		}
	}

	// ---- pre-existing target key (for the first record's key)
	pre := t.Choose(4) // 0 none, 1 same kind, 2 other kind, 3 string with ttl
	type planted struct {
		val *rc.Value
		exp int64
	}
	var plantedFirst *planted

	c.Sample = map[string]interface{}{
		"target": fl.version, "target.version": tv, "user_given": userGiven, "key_exists": conf.Options.KeyExists, "replace": conf.Options.TargetReplace,
		"threshold": conf.Options.BigKeyThreshold, "shift_ms": shiftMs, "hash_tag": conf.Options.ReplaceHashTag, "rdb_version": version,
		"records": func() string {
			s := ""
			for _, r := range recs {
				s += fmt.Sprintf("[type %d key %q exp %d] ", r.Type, clipS(r.Key), r.ExpireAt)
			}
			return s
		}(), "pre_existing": pre,
	}

	var viol *core.Violation
	fail := func(clause, site, f string, a ...interface{}) {
		if viol == nil {
			viol = core.Violate(clause, site, f, a...)
		}
	}
	var toolProc *simrt.Proc
	var tgt *modelredis.Server
	var victim *simnet.Conn
	restorerDone := false
	loaderBuf := []int{0, 1, 2, 1024}[t.Choose(4)] // capacity of the parser -> restorer channel
	cutArmed := t.Choose(10) == 9
	var cutAfter int64
	if cutArmed {
		total := 0
		for _, e := range entries {
			total += len(e.Value) + len(e.Key) + 40
		}
		if total > 3000 && t.Choose(2) == 0 {
			total = 3000 // most entries are small: keep half of the cuts inside the first few kilobytes
		}
		cutAfter = int64(30 + t.Choose(total+200))
	}
	cfg := simrt.Config{MaxSteps: 3000000, MaxSimTime: time.Hour, Trace: c.Trace}
	s := simrt.Run(c.TT, t, cfg, func(s *simrt.Sim) {
		net := simnet.New(s)
		if t.Choose(3) == 2 {
			net.DefaultProfile = simnet.Profile{Split: 300, Latency: 300, MaxDelayMs: 20, ShortRead: 100}
		}
		tgt = modelredis.NewServer(s, net, "target", "10.0.0.2:6379")
		tgt.Password = tgtPassword
		tgt.Version, tgt.RDBVersion, tgt.KnownType, tgt.RestoreReplace, tgt.RestoreIdleFreq = fl.version, fl.rdbVersion, fl.known, fl.replace, fl.idleFreq
		toolProc = s.NewProc("tool")
		// fault: the connection is reset after a tape-chosen number of bytes written by the tool (1 run in 10).
		// A reset restore must end in an error or an abort; wherever success is still reported the value must be exact.
		if cutArmed {
			tgt.L.OnAccept = func(cl, sv *simnet.Conn) {
				if victim == nil {
					victim = cl
					cl.CutAfterTotal(cutAfter)
				}
			}
		}

		// key name as the tool will use it
		targetKey := func(k []byte) string {
			if conf.Options.ReplaceHashTag {
				k = bytes.Replace(k, []byte("{"), []byte(""), 1)
				k = bytes.Replace(k, []byte("}"), []byte(""), 1)
			}
			return string(k)
		}
		first := recs[0]
		if pre != 0 && !first.Lua {
			var pv *rc.Value
			switch pre {
			case 1:
				k := first.Val.Kind
				if k == rc.KStream {
					k = rc.KString
				}
				pv = gen.ValueOf(t, k, 50)
			case 2:
				k := rc.Kind((int(first.Val.Kind) + 1 + t.Choose(4)) % 5)
				pv = gen.ValueOf(t, k, 50)
			default:
				pv = &rc.Value{Kind: rc.KString, Str: []byte("old")}
			}
			p := &planted{val: pv}
			if pre == 3 {
				p.exp = epochMs + 3600000
			}
			plantedFirst = p
			tgt.Plant(0, targetKey(first.Key), &modelredis.Entry{Val: cloneValue(pv), ExpireAt: p.exp})
		}

		type result struct {
			err    error
			done   bool
			t0, t1 time.Duration
			now0Ms int64
		}
		results := make([]*result, len(entries))
		s.GoProc(toolProc, "restorer", func() {
			cn, err := utils.OpenRedisConn([]string{"10.0.0.2:6379"}, "auth", tgtPassword, false, false)
			if err != nil {
				fail("harness-connect", "", "cannot connect: %v", err)
				return
			}
			defer cn.Close()
			defer func() { restorerDone = true }()
			// the entries reach the restorer the way they do in the tool: through utils.NewRDBLoader's channel, with the
			// parser running as its own task (the scheduler decides how far it runs ahead of the restorer; `entries`,
			// parsed beforehand, is only the oracle's description of what arrives)
			var rbytes atomic2.Int64
			live := utils.NewRDBLoader(bufio.NewReaderSize(bytes.NewReader(file), 64<<10), &rbytes, loaderBuf)
			for i := range entries {
				e, ok := <-live
				if !ok || e == nil {
					fail("harness-parse", "live", "the live parse delivered %d entries, the reference parse %d", i, len(entries))
					return
				}
				r := &result{t0: s.Now(), now0Ms: time.Now().UnixNano() / 1e6}
				results[i] = r
				r.err = utils.RestoreRdbEntry(cn, e)
				r.t1 = s.Now()
				r.done = true
				if r.err != nil {
					// every caller treats an error as fatal for the run: nothing is restored after it
					break
				}
			}
		})
		for i := 0; i < 30000 && !restorerDone && s.Alive(toolProc); i++ {
			s.Sleep(100 * time.Millisecond)
		}
		if viol != nil {
			return
		}
		if toolProc.Panicked {
			fail("go-panic", "target.version="+tv, "Go panic in the restore path: %s", firstLines(toolProc.PanicMsg, 5))
			return
		}
		cutHit := victim != nil && victim.CutFired
		// ---- oracle, record by record
		ei := 0
		for ri, r := range recs {
			if r.Lua {
				ei++
				continue
			}
			// entries of this record (chunks)
			var res []*result
			start := ei
			for ei < len(entries) && (ei == start || (entries[ei].NeedReadLen == 0 && bytes.Equal(entries[ei].Key, entries[start].Key))) {
				res = append(res, results[ei])
				ei++
			}
			route := routeOf(r, entries[start], fl)
			site := fmt.Sprintf("rdbtype=%d,route=%s", r.Type, route)
			psite := "route=" + route
			if ri == 0 && plantedFirst != nil {
				site += ",key_exists=" + conf.Options.KeyExists
				if plantedFirst.val.Kind != r.Val.Kind {
					psite += ",pre=other-kind"
				}
			}
			key := targetKey(r.Key)
			last := res[len(res)-1]
			aborted := toolProc.Exited && (last == nil || !last.done)
			var firstErr error
			stopped := false
			for _, x := range res {
				if x != nil && x.err != nil && firstErr == nil {
					firstErr = x.err
				}
				if x == nil {
					stopped = true
				}
			}
			if stopped && firstErr == nil && !aborted {
				// an earlier record failed and the run stopped there: nothing to judge for this one
				return
			}
			got := tgt.Get(0, key)
			existed := ri == 0 && plantedFirst != nil
			if existed {
				switch conf.Options.KeyExists {
				case "none":
					if firstErr == nil && !aborted {
						fail("exists-none-no-error", psite, "key %q existed, key_exists=none, but the restore reported no error", clipS(r.Key))
						return
					}
					if ok, why := sameEntry(got, plantedFirst.val, plantedFirst.exp); !ok {
						fail("exists-none-touched", psite, "key %q existed, key_exists=none, but the target key changed: %s", clipS(r.Key), why)
						return
					}
					if aborted {
						return
					}
					continue
				case "ignore":
					if aborted && cutHit {
						c.Probe("conn_reset_reported")
						return
					}
					if aborted {
						fail("exists-ignore-abort", psite, "key %q existed, key_exists=ignore, but the tool aborted: %s", clipS(r.Key), lc.LastPanic())
						return
					}
					if ok, why := sameEntry(got, plantedFirst.val, plantedFirst.exp); !ok {
						fail("exists-ignore-touched", psite, "key %q existed, key_exists=ignore, but the target key changed: %s", clipS(r.Key), why)
						return
					}
					continue
				}
			}
			if cutHit && (aborted || firstErr != nil) {
				// the injected reset surfaced as an error or an abort: reported, nothing more to judge
				c.Probe("conn_reset_reported")
				return
			}
			if aborted {
				fail("abort", site+",err="+env.ErrClass(lc.LastPanic()), "restore of key %q aborted the tool: %s", clipS(r.Key), lc.LastPanic())
				return
			}
			if firstErr != nil {
				// an error return is only acceptable for the 'none' policy handled above
				fail("restore-error", site, "restore of key %q failed: %v", clipS(r.Key), firstErr)
				return
			}
			// success: value and TTL
			want := r.Val
			if r.ExpireAt == 0 {
				if got == nil {
					fail("value-missing", site, "restore of key %q reported success but the target has no such key", clipS(r.Key))
					return
				}
				if ok, why := rc.Equal(got.Val, want); !ok {
					fail("value-differs", site, "key %q: target value differs from the source: %s", clipS(r.Key), why)
					return
				}
				if got.ExpireAt != 0 {
					fail("ttl-unexpected", site, "key %q has no expiry on the source but expires at %d on the target", clipS(r.Key), got.ExpireAt)
					return
				}
				continue
			}
			wantAbs := int64(r.ExpireAt) - shiftMs // absolute expiry on the target's clock
			elapsed := (last.t1 - res[0].t0).Milliseconds()
			if wantAbs <= res[0].now0Ms {
				// already expired at restore time: must not survive
				s.Sleep(5 * time.Millisecond)
				if g := tgt.Get(0, key); g != nil {
					fail("ttl-expired-key-survives", site, "key %q was already expired on the source (expire at %d, now %d) but the target keeps it (expiry %d)", clipS(r.Key), wantAbs, res[0].now0Ms, g.ExpireAt)
					return
				}
				continue
			}
			if got == nil {
				if wantAbs <= time.Now().UnixNano()/1e6 {
					continue // expired meanwhile
				}
				fail("value-missing", site, "restore of key %q reported success but the target has no such key", clipS(r.Key))
				return
			}
			if ok, why := rc.Equal(got.Val, want); !ok {
				fail("value-differs", site, "key %q: target value differs from the source: %s", clipS(r.Key), why)
				return
			}
			if got.ExpireAt == 0 {
				fail("ttl-missing", site, "key %q expires at %d on the source but has no expiry on the target", clipS(r.Key), wantAbs)
				return
			}
			if d := got.ExpireAt - wantAbs; d < 0 || d > elapsed+1 {
				fail("ttl-wrong", site, "key %q: target expiry %d, expected %d (+ at most %d ms of restore latency)", clipS(r.Key), got.ExpireAt, wantAbs, elapsed)
				return
			}
		}
	})
	c.Absorb(s)
	c.Log = append(lc.Tail(25), fmt.Sprintf("tool: exited=%v panicked=%v; cut armed=%v after=%d fired=%v", toolProc != nil && toolProc.Exited, toolProc != nil && toolProc.Panicked, cutArmed, cutAfter, victim != nil && victim.CutFired))
	if tgt != nil {
		n := len(tgt.Applied)
		for i, a := range tgt.Applied {
			if i < 12 || i >= n-12 {
				c.Log = append(c.Log, fmt.Sprintf("applied %d: %s -> %s", i, clipS([]byte(a.String())), strings.TrimSpace(a.Reply)))
			}
		}
	}
	if c.Debug != "" && tgt != nil {
		var sb strings.Builder
		counts := map[string]int{}
		for _, a := range tgt.Applied {
			counts[a.Name()]++
		}
		fmt.Fprintf(&sb, "counts=%v entries=%d\n", counts, len(entries))
		for i, e := range entries {
			fmt.Fprintf(&sb, "entry %d key=%q type=%d len=%d real=%d need=%d exp=%d\n", i, e.Key, e.Type, len(e.Value), e.RealMemberCount, e.NeedReadLen, e.ExpireAt)
		}
		n := len(tgt.Applied)
		for i, a := range tgt.Applied {
			if i < 30 || i > n-30 || a.Name() != "hset" {
				fmt.Fprintf(&sb, "%d %s -> %s\n", i, a.String(), strings.TrimSpace(a.Reply))
			}
		}
		sb.WriteString(strings.Join(lc.Tail(30), "\n"))
		os.WriteFile(c.Debug+"/c02.txt", []byte(sb.String()), 0644)
	}
	for _, r := range recs {
		if !r.Lua {
			c.Probe("type_" + kindName(int(r.Type)))
		}
	}
	if tgt != nil {
		for _, a := range tgt.Applied {
			switch a.Name() {
			case "restore":
				c.Probe("route_restore")
				if a.IsError && strings.Contains(a.Reply, "BUSYKEY") {
					c.Probe("busykey")
				}
				if a.IsError && strings.Contains(a.Reply, "Bad data") {
					c.Probe("route_fallback_bad_format")
				}
			case "rpush", "hset", "sadd", "zadd", "set":
				c.Probe("route_elementwise")
			}
		}
	}
	if userGiven && len(strings.Split(tv, ".")) == 1 {
		c.Probe("version_one_component")
	}
	c.Nontrivial = true
	if viol == nil && s.EndReason != "stop" {
		return core.Violate("run-did-not-finish", s.EndReason, "%v", s.TaskStates())
	}
	return viol
}

// routeOf predicts (for the signature only) which route an entry takes.
func routeOf(r rc.Record, e *rdb.BinEntry, fl flavour) string {
	switch {
	case r.Type == rc.TQuicklist:
		return "quicklist"
	case e.RealMemberCount != 0:
		return "chunked"
	case r.Type != rc.TStream && uint64(len(e.Value)) > conf.Options.BigKeyThreshold:
		return "bigkey"
	case !fl.known(int(r.Type)):
		return "fallback"
	}
	return "restore"
}

func sameEntry(got *modelredis.Entry, val *rc.Value, exp int64) (bool, string) {
	if got == nil {
		return false, "the key is gone"
	}
	if ok, why := rc.Equal(got.Val, val); !ok {
		return false, why
	}
	if got.ExpireAt != exp {
		return false, fmt.Sprintf("expiry %d vs %d", got.ExpireAt, exp)
	}
	return true, ""
}

func init() {
	core.Register(&core.Prop{
		ID:         "C02",
		Run:        runC02,
		QuickRuns:  6000,
		PerProcess: 300,
		Rule: "one run = 1-3 keys (every type/encoding legal for the RDB version; 1.5% of runs a >16 MiB chunked hash) parsed by the real loader and restored with " +
			"utils.RestoreRdbEntry over a simulated connection into a model target of a tape-chosen flavour (2.8/3.2/4.0/5.0/6.0: REPLACE, IDLETIME/FREQ, known types), " +
			"x key_exists x target.version spelling x big_key_threshold around the payload size x time shift x hash-tag replacement x pre-existing key; " +
			"distinct = hash of (schedule, workload); every run is non-trivial",
		Assumptions: []string{
			"the model target implements RESTORE/BUSYKEY/REPLACE/Bad data format as documented for the flavour; target.version is consistent with the actual target",
			"TTL tolerance = simulated time elapsed during the call (0 with zero latency)",
			"streams are only restored into targets that know them (the element-wise route cannot split a stream)",
		},
		RealVsStub: "real: utils.RestoreRdbEntry and all routes, utils.OpenRedisConn, redigo, pkg/rdb loader; simulated: TCP (simnet), target (modelredis), clock, scheduling, process exit",
		ProbeNames: []string{"route_restore", "route_elementwise", "route_fallback_bad_format", "busykey", "version_one_component", "type_hash", "type_zset", "type_list", "type_set", "type_string", "conn_reset_reported"},
		FaultNames: []string{"segment_split", "latency", "short_read", "conn_cut"},
	})
}
