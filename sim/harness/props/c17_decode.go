package props

import (
	"bufio"
	"bytes"
	"encoding/base64"
	"encoding/json"
	"fmt"
	"math"
	"os"
	"path/filepath"
	"sort"
	"strings"
	"time"

	"github.com/alibaba/RedisShake/pkg/simrt"
	run "github.com/alibaba/RedisShake/redis-shake"
	conf "github.com/alibaba/RedisShake/redis-shake/configure"

	"verifsim/core"
	"verifsim/env"
	"verifsim/gen"
	rc "verifsim/refcodec"
)

// C17 — decode mode prints every element of the RDB, recoverably.

type decLine struct {
	DB       uint32   `json:"db"`
	Type     string   `json:"type"`
	ExpireAt uint64   `json:"expireat"`
	Key      string   `json:"key"`
	Key64    string   `json:"key64"`
	Index    *int     `json:"index"`
	Field64  *string  `json:"field64"`
	Member64 *string  `json:"member64"`
	Value64  *string  `json:"value64"`
	Score    *float64 `json:"score"`
}

func b64(b []byte) string { return base64.StdEncoding.EncodeToString(b) }

// canon renders one expected/observed element in a canonical comparable form.
func canonLine(db uint32, typ string, exp uint64, key64 string, idx int, a64, b64s string, score float64, hasScore bool) string {
	sc := ""
	if hasScore {
		if score == 0 {
			score = 0 // -0 and 0 are numerically equal
		}
		sc = fmt.Sprintf("%x", math.Float64bits(score))
	}
	return fmt.Sprintf("db=%d|%s|exp=%d|k=%s|i=%d|a=%s|b=%s|s=%s", db, typ, exp, key64, idx, a64, b64s, sc)
}

func runC17(c *core.Ctx) *core.Violation {
	t := c.T
	env.DefaultOptions(conf.TypeDecode)
	lc := env.CaptureLog("info", 1<<20)
	maxKeys := 16
	if c.Thorough() {
		maxKeys = 60
	}
	opts := gen.RDBOpts{MaxKeys: maxKeys, MaxDBs: 3, NoModuleAux: t.Choose(2) == 0, MaxElem: 2000, Kinds: []rc.Kind{rc.KString, rc.KList, rc.KSet, rc.KZSet, rc.KHash}}
	opts.NoInfScore = t.Choose(10) != 9 // infinite scores abort the run (known finding): keep them rare so that the rest is explored
	file, recs, version, items := gen.RDB(t, opts)
	big := t.Chance(8)
	if big {
		it := rc.Item{Kind: "key", Key: []byte("the-big-hash"), Val: bigHash(t), Type: rc.THash}
		items = append([]rc.Item{{Kind: "selectdb", DB: 0}, it}, items...)
		file, recs = rc.WriteRDB(9, items, plainChooser{}, true)
		version = 9
		c.Sub = "chunked-hash"
	}
	in := filepath.Join(c.TmpDir, "in.rdb")
	out := filepath.Join(c.TmpDir, "out.json")
	if err := os.WriteFile(in, file, 0644); err != nil {
		panic(err)
	}
	conf.Options.SourceRdbInput = []string{in}
	conf.Options.TargetRdbOutput = out
	staleOutput := t.Choose(4) == 3
	if staleOutput {
		// the output path already holds the (longer) result of an earlier decode run: it must be replaced, not overwritten in place
		var sb strings.Builder
		for i := 0; sb.Len() < len(file)*12+4096; i++ {
			k := fmt.Sprintf("stale-key-of-an-earlier-run-%d", i)
			fmt.Fprintf(&sb, "{\"db\":0,\"type\":\"string\",\"expireat\":0,\"key\":\"%s\",\"key64\":\"%s\",\"value64\":\"%s\"}\n", k, b64([]byte(k)), b64([]byte("old")))
		}
		if err := os.WriteFile(out+".0", []byte(sb.String()), 0644); err != nil {
			panic(err)
		}
		c.Probe("output_path_existed")
	}
	conf.Options.Parallel = 1 + t.Choose(8)
	hasInf := false
	for _, r := range recs {
		if r.Val != nil {
			for _, z := range r.Val.ZSet {
				if math.IsInf(z.S, 0) {
					hasInf = true
				}
			}
		}
	}
	c.Sample = map[string]interface{}{"rdb_version": version, "records": len(recs), "parallel": conf.Options.Parallel, "file_len": len(file), "has_infinite_score": hasInf, "chunked_hash": big, "output_path_existed": staleOutput}
	cfg := simrt.Config{MaxSteps: 4000000, MaxSimTime: time.Hour, Trace: c.Trace}
	if t.Choose(2) == 1 {
		cfg.Sticky = 300 + t.Choose(650)
	}
	slowIO := t.Choose(3) == 2
	if slowIO {
		// slow storage: a few per cent of the tool's reads and buffered writes stall for 50 ms - 3 s, so that the run
		// spans several progress ticks with the pipeline in every state of fullness
		cfg.IOStall = 5 + t.Choose(60)
	}
	var proc *simrt.Proc
	done := false
	s := simrt.Run(c.TT, t, cfg, func(s *simrt.Sim) {
		proc = s.NewProc("tool")
		s.GoProc(proc, "decode-main", func() {
			(&run.CmdDecode{}).Main()
			done = true
		})
		for i := 0; i < 36000 && !done && s.Alive(proc); i++ {
			s.Sleep(100 * time.Millisecond)
		}
	})
	c.Absorb(s)
	c.Log = lc.Tail(20)
	if proc.Panicked {
		return core.Violate("go-panic", "decode", "Go panic in decode mode: %s", firstLines(proc.PanicMsg, 6))
	}
	if proc.Exited {
		site := "err=" + env.ErrClass(lc.LastPanic())
		if hasInf && strings.Contains(lc.LastPanic(), "json: unsupported value") {
			site = "infinite-score"
		} else if big && strings.Contains(lc.LastPanic(), "decode failed") {
			site = "chunked-hash"
		}
		return core.Violate("abort", site, "decode mode aborted: %s", lc.LastPanic())
	}
	if !done {
		return core.Violate("no-termination", "decode", "CmdDecode.Main did not return: %v", s.TaskStates())
	}
	// ---- expected multiset
	want := map[string]int{}
	scripts := map[string]int{}
	for _, r := range recs {
		if r.Lua {
			scripts[string(r.LuaBody)]++
			continue
		}
		v := r.Val
		k64 := b64(r.Key)
		switch v.Kind {
		case rc.KString:
			want[canonLine(r.DB, "string", r.ExpireAt, k64, -1, "", b64(v.Str), 0, false)]++
		case rc.KList:
			for i, e := range v.List {
				want[canonLine(r.DB, "list", r.ExpireAt, k64, i, "", b64(e), 0, false)]++
			}
		case rc.KHash:
			for _, p := range v.Hash {
				want[canonLine(r.DB, "hash", r.ExpireAt, k64, -1, b64(p.F), b64(p.V), 0, false)]++
			}
		case rc.KSet:
			for _, m := range v.Set {
				want[canonLine(r.DB, "set", r.ExpireAt, k64, -1, b64(m), "", 0, false)]++
			}
		case rc.KZSet:
			for _, z := range v.ZSet {
				want[canonLine(r.DB, "zset", r.ExpireAt, k64, -1, b64(z.M), "", z.S, true)]++
			}
		}
	}
	// ---- observed
	f, err := os.Open(out + ".0")
	if err != nil {
		return core.Violate("output-file", "missing", "%v", err)
	}
	defer f.Close()
	got := map[string]int{}
	gotScripts := map[string]int{}
	sc := bufio.NewScanner(f)
	sc.Buffer(make([]byte, 1<<20), 64<<20)
	nlines := 0
	for sc.Scan() {
		line := sc.Bytes()
		if len(bytes.TrimSpace(line)) == 0 {
			continue
		}
		nlines++
		var d decLine
		if err := json.Unmarshal(line, &d); err != nil {
			return core.Violate("output-line", "not-json", "line %d is not JSON: %v: %s", nlines, err, clipS(line))
		}
		if d.Type == "aux" {
			if d.Key == "lua" && d.Value64 != nil {
				gotScripts[*d.Value64]++
			}
			continue
		}
		idx := -1
		a, b := "", ""
		var score float64
		hasScore := false
		switch d.Type {
		case "string":
			if d.Value64 != nil {
				b = *d.Value64
			}
		case "list":
			if d.Index != nil {
				idx = *d.Index
			}
			if d.Value64 != nil {
				b = *d.Value64
			}
		case "hash":
			if d.Field64 != nil {
				a = *d.Field64
			}
			if d.Value64 != nil {
				b = *d.Value64
			}
		case "set":
			if d.Member64 != nil {
				a = *d.Member64
			}
		case "zset":
			if d.Member64 != nil {
				a = *d.Member64
			}
			if d.Score != nil {
				score, hasScore = *d.Score, true
			}
		default:
			return core.Violate("output-line", "unknown-type", "line %d has type %q", nlines, d.Type)
		}
		got[canonLine(d.DB, d.Type, d.ExpireAt, d.Key64, idx, a, b, score, hasScore)]++
	}
	var keys []string
	for k := range want {
		keys = append(keys, k)
	}
	for k := range got {
		if _, ok := want[k]; !ok {
			keys = append(keys, k)
		}
	}
	sort.Strings(keys)
	for _, k := range keys {
		w, g := want[k], got[k]
		typ := typeOfCanon(k)
		if big && strings.Contains(k, "|k="+b64([]byte("the-big-hash"))+"|") {
			// an element of the hash beyond the 16 MiB chunk limit: decode mode cannot handle its chunks (known
			// finding); when it does not abort it prints garbage for them
			typ += ",chunked-hash"
		}
		switch {
		case g < w:
			return core.Violate("element-omitted", "type="+typ, "element %s is in the RDB %d time(s) but printed %d time(s) (parallel=%d)", k, w, g, conf.Options.Parallel)
		case g > w && w == 0:
			return core.Violate("element-invented", "type="+typ, "printed element %s is not in the RDB (wrong key, db, expiry, bytes or score)", k)
		case g > w:
			return core.Violate("element-duplicated", "type="+typ, "element %s printed %d times, the RDB has it %d time(s)", k, g, w)
		}
	}
	var sk []string
	for k := range scripts {
		sk = append(sk, k)
	}
	sort.Strings(sk)
	for _, k := range sk {
		if gotScripts[k] != scripts[k] {
			return core.Violate("script-line", "", "script %q is in the RDB %d time(s) but printed %d time(s)", clipS([]byte(k)), scripts[k], gotScripts[k])
		}
	}
	if conf.Options.Parallel > 1 {
		c.Probe("parallel_gt1")
	}
	if len(scripts) > 0 {
		c.Probe("lua_script_line")
	}
	c.Nontrivial = len(want) > 0
	return nil
}

func typeOfCanon(k string) string {
	parts := bytes.Split([]byte(k), []byte("|"))
	if len(parts) > 1 {
		return string(parts[1])
	}
	return "?"
}

func init() {
	core.Register(&core.Prop{
		ID:         "C17",
		Run:        runC17,
		QuickRuns:  6000,
		PerProcess: 200,
		Rule: "one run = CmdDecode.Main() on a real temp file from the RDB generator restricted to classic types in every encoding (ziplist/intset/zipmap/quicklist/LZF/int strings), binary keys and values, " +
			"scores incl. +-Inf and -0, Lua scripts, parallel = 1..8 decoders interleaved with parser and writer by the scheduler (0.8% of runs carry a hash beyond the 16 MiB chunk limit); oracle: the multiset of output lines " +
			"(db, type, expiry, base64 key, index / field / member, base64 value, score bits) equals one line per element of the reference decoding, one line per script, and Main returns; " +
			"distinct = hash of (schedule, file); non-trivial = the file has elements",
		Assumptions: []string{
			"the printable 'key'/'field'/'member' text fields are not compared (only the base64 fields are recoverable)",
			"script bodies are printable (the aux line carries the raw text, not base64)",
		},
		RealVsStub: "real: run.CmdDecode (parser, N decoders, writer), rdb.DecodeDump, utils.NewRDBLoader, real input and output files; simulated: scheduling, clock, process exit",
		FaultNames: []string{"io_stall"},
		ProbeNames: []string{"parallel_gt1", "lua_script_line", "output_path_existed"},
	})
}
