package props

import (
	"fmt"
	"os"
	"path/filepath"
	"sort"
	"strconv"
	"strings"
	"time"

	"github.com/alibaba/RedisShake/pkg/simrt"
	run "github.com/alibaba/RedisShake/redis-shake"
	conf "github.com/alibaba/RedisShake/redis-shake/configure"

	"verifsim/core"
	"verifsim/env"
	"verifsim/modelredis"
	rc "verifsim/refcodec"
	"verifsim/simnet"
)

// C06 — configured filters are honoured identically in every mode and phase.

type c06Key struct {
	db  int
	key string
}

type c06Case struct {
	keys    []c06Key
	scripts []string
	f       FilterCfg
	slots   []int
}

func (cs *c06Case) applyConf(mode string) {
	env.DefaultOptions(mode)
	conf.Options.FilterDBWhitelist, conf.Options.FilterDBBlacklist = cs.f.DBWhite, cs.f.DBBlack
	conf.Options.FilterKeyWhitelist, conf.Options.FilterKeyBlacklist = cs.f.KeyWhite, cs.f.KeyBlack
	conf.Options.FilterLua = cs.f.FilterLua
	var ss []string
	for _, s := range cs.slots {
		ss = append(ss, strconv.Itoa(s))
	}
	conf.Options.FilterSlot = ss
	conf.Options.TargetDB = cs.f.TargetDB
	conf.Options.TargetVersion = "5.0.7"
	conf.Options.TargetReplace = true
	conf.Options.SourceAddressList = []string{srcAddr}
	conf.Options.TargetAddressList = []string{tgtAddr}
	conf.Options.SourcePasswordRaw, conf.Options.TargetPasswordRaw = srcPassword, tgtPassword
}

// idOf maps an observed (db, key) on the target back to the source key id "srcdb/key".
func (cs *c06Case) idOf(db int, key string) string {
	if cs.f.TargetDB == -1 {
		return fmt.Sprintf("%d/%s", db, key)
	}
	for _, k := range cs.keys {
		if k.key == key {
			if db != cs.f.TargetDB {
				return fmt.Sprintf("wrong-db-%d/%s", db, key)
			}
			return fmt.Sprintf("%d/%s", k.db, key)
		}
	}
	return fmt.Sprintf("%d/%s", db, key)
}

// passes is the statement's predicate for one key on one path.
func (cs *c06Case) passes(path string, k c06Key) bool {
	if !cs.f.dbPasses(k.db) {
		return false
	}
	isCkpt := strings.HasPrefix(k.key, "redis-shake-checkpoint")
	switch path {
	case "full", "restore":
		if isCkpt {
			return false
		}
	default: // incremental, rump: the checkpoint keys are only excluded once a key filter is configured
		if isCkpt {
			return !cs.f.hasKeyFilter()
		}
	}
	if cs.f.hasKeyFilter() {
		ok := false
		if len(cs.f.KeyBlack) != 0 {
			ok = true
			for _, p := range cs.f.KeyBlack {
				if strings.HasPrefix(k.key, p) {
					ok = false
				}
			}
		} else {
			for _, p := range cs.f.KeyWhite {
				if strings.HasPrefix(k.key, p) {
					ok = true
				}
			}
		}
		if !ok {
			return false
		}
	}
	if path == "full" && cs.slots != nil {
		in := false
		for _, s := range cs.slots {
			if s == rc.KeySlot([]byte(k.key)) {
				in = true
			}
		}
		return in
	}
	return true
}

func (cs *c06Case) rdb() []byte {
	var items []rc.Item
	last := -1
	ks := append([]c06Key(nil), cs.keys...)
	sort.SliceStable(ks, func(i, j int) bool { return ks[i].db < ks[j].db })
	for _, k := range ks {
		if k.db != last {
			items = append(items, rc.Item{Kind: "selectdb", DB: uint64(k.db)})
			last = k.db
		}
		items = append(items, rc.Item{Kind: "key", Key: []byte(k.key), Val: &rc.Value{Kind: rc.KString, Str: []byte("v:" + k.key)}, Type: rc.TString})
	}
	for _, s := range cs.scripts {
		items = append(items, rc.Item{Kind: "aux", AuxKey: []byte("lua"), AuxVal: []byte(s)})
	}
	file, _ := rc.WriteRDB(9, items, rc.Zero, true)
	return file
}

// present lists which of the case's keys are on the target (db/key).
func present(tgt *modelredis.Server, keys []c06Key, targetDB int) map[string]bool {
	out := map[string]bool{}
	for _, k := range keys {
		db := k.db
		if targetDB != -1 {
			db = targetDB
		}
		if tgt.Get(db, k.key) != nil {
			out[fmt.Sprintf("%d/%s", k.db, k.key)] = true
		}
	}
	return out
}

func runC06(c *core.Ctx) *core.Violation {
	t := c.T
	cs := &c06Case{f: FilterCfg{TargetDB: -1}}
	prefixes := []string{"user:", "us", "order", "{tag}", "redis-shake", "lua", "a"}
	switch t.Choose(4) {
	case 1:
		cs.f.KeyWhite = []string{prefixes[t.Choose(len(prefixes))]}
		if t.Choose(2) == 1 {
			cs.f.KeyWhite = append(cs.f.KeyWhite, prefixes[t.Choose(len(prefixes))])
		}
	case 2:
		cs.f.KeyBlack = []string{prefixes[t.Choose(len(prefixes))]}
		if t.Choose(2) == 1 {
			cs.f.KeyBlack = append(cs.f.KeyBlack, prefixes[t.Choose(len(prefixes))])
		}
	}
	switch t.Choose(4) {
	case 1:
		cs.f.DBWhite = []string{strconv.Itoa(t.Choose(3))}
	case 2:
		cs.f.DBBlack = []string{strconv.Itoa(t.Choose(3)), "1" + strconv.Itoa(t.Choose(3))} // "1" must not match db 10..12
	case 3:
		cs.f.DBWhite = []string{"1"} // must not admit db 10, 11, 12
	}
	cs.f.FilterLua = t.Choose(3) == 2
	// the keyspace: keys that are prefixes / extensions of the listed prefixes, hash tags, checkpoint keys, the key "lua"
	names := []string{"user:1", "user:", "user", "use", "us", "u", "order:9", "orders", "{tag}x", "{tag", "x{tag}", "redis-shake-checkpoint", "redis-shake-checkpoint-abcd", "redis-shake", "lua", "luax", "a", "b", "", "A", "user:\x00\xff",
		"a}b{c}", "}{x}", "x}{}{y}", "{}{z}", "{{p}}", "q{r", "s}t"}
	seen := map[string]bool{}
	n := 3 + t.Choose(12)
	for i := 0; i < n; i++ {
		k := c06Key{db: []int{0, 1, 2, 10, 11, 12}[t.Choose(6)], key: names[t.Choose(len(names))]}
		if k.key == "" {
			k.key = "e" // an empty key name cannot be SELECTed around in every path's logs; keep it simple
		}
		id := fmt.Sprintf("%d/%s", k.db, k.key)
		if !seen[id] {
			seen[id] = true
			cs.keys = append(cs.keys, k)
		}
	}
	if t.Choose(4) == 3 {
		// a fixed target database (possibly one whose number the db filter excludes as a source db);
		// key names are made unique across source dbs so that they cannot collide there
		cs.f.TargetDB = []int{0, 1, 2, 3}[t.Choose(4)]
		for i := range cs.keys {
			cs.keys[i].key += fmt.Sprintf("~%d", cs.keys[i].db)
		}
	}
	ns := t.Choose(3)
	for i := 0; i < ns; i++ {
		cs.scripts = append(cs.scripts, fmt.Sprintf("return %d", i))
	}
	if t.Choose(4) == 3 {
		for _, k := range cs.keys {
			if t.Choose(2) == 1 {
				cs.slots = append(cs.slots, rc.KeySlot([]byte(k.key)))
			}
		}
		if cs.slots == nil {
			cs.slots = []int{1}
		}
	}
	c.Sample = map[string]interface{}{"filters": fmt.Sprintf("keyW=%q keyB=%q dbW=%v dbB=%v lua=%v slots=%v", cs.f.KeyWhite, cs.f.KeyBlack, cs.f.DBWhite, cs.f.DBBlack, cs.f.FilterLua, cs.slots),
		"keys": fmt.Sprintf("%v", cs.keys), "scripts": len(cs.scripts), "target_db": cs.f.TargetDB}
	lc := env.CaptureLog("info", 4<<20)
	got := map[string]map[string]bool{}
	scriptsOn := map[string]int{}
	cfg := simrt.Config{MaxSteps: 3000000, MaxSimTime: time.Hour, Trace: c.Trace}

	// ---- paths 1+2: sync (full phase from the RDB, then the same keys as SET commands plus script commands)
	var viol *core.Violation
	{
		cs.applyConf(conf.TypeSync)
		conf.Options.Parallel = 1 + t.Choose(3)
		var stream []byte
		cur := -1
		ks := append([]c06Key(nil), cs.keys...)
		if t.Choose(2) == 1 {
			// any order of SELECT switches (a db may be selected again later)
			p := t.Perm(len(ks))
			sh := make([]c06Key, len(ks))
			for i, j := range p {
				sh[i] = ks[j]
			}
			ks = sh
		} else {
			sort.SliceStable(ks, func(i, j int) bool { return ks[i].db < ks[j].db })
		}
		for _, k := range ks {
			if k.db != cur {
				stream = append(stream, respCmd(bs("SELECT", strconv.Itoa(k.db))...)...)
				cur = k.db
			}
			stream = append(stream, respCmd([]byte([]string{"SET", "set", "SeT"}[t.Choose(3)]), []byte(k.key), []byte("1"))...)
			stream = append(stream, respCmd(bs("OPINFO", "x")...)...)
		}
		nScriptCmds := 0
		scriptDB := []int{0, 1, 2, 10}[t.Choose(4)]
		if len(cs.scripts) > 0 {
			stream = append(stream, respCmd(bs("SELECT", strconv.Itoa(scriptDB))...)...)
		}
		for i, sc := range cs.scripts {
			stream = append(stream, respCmd([]byte([]string{"EVAL", "eval", "EvAl"}[t.Choose(3)]), []byte(sc), []byte("0"))...)
			stream = append(stream, respCmd([]byte([]string{"SCRIPT", "script"}[t.Choose(2)]), []byte("load"), []byte(sc))...)
			stream = append(stream, respCmd([]byte([]string{"EVALSHA", "evalsha"}[t.Choose(2)]), []byte(strings.Repeat("ab", 20)), []byte(strconv.Itoa(i)))...)
			nScriptCmds += 3
		}
		var e *SyncEnv
		s := simrt.Run(c.TT, t, cfg, func(s *simrt.Sim) {
			e = NewSyncEnv(c, s, lc)
			e.Tgt.NumDBs = 16
			e.Src.RDB = cs.rdb()
			e.Src.Stream = stream
			e.StartTool()
			e.WaitUntil(30*time.Second, 100*time.Millisecond, func() bool { return false })
			if e.ToolAborted() {
				viol = core.Violate("abort", "sync,err="+env.ErrClass(e.AbortText()), "sync aborted: %s", e.AbortText())
				return
			}
			// the full phase is read off the restore workers' connections (the incremental phase writes the same key names later)
			full := map[string]bool{}
			scriptsOn["full"] = 0
			for _, a := range e.Tgt.Applied {
				if e.ConnPhase[a.NetID] != "full" || a.IsError {
					continue
				}
				switch a.Name() {
				case "script":
					scriptsOn["full"]++
				case "restore", "set":
					full[cs.idOf(a.DB, string(a.Args[1]))] = true
				}
			}
			got["full"] = full
			// incremental: keys "incr:<key>"
			inc := map[string]bool{}
			nsc := 0
			for _, a := range e.IncrLog() {
				switch a.Name() {
				case "set":
					inc[cs.idOf(a.DB, string(a.Args[1]))] = true
				case "eval", "script", "evalsha":
					nsc++
				case "opinfo":
					viol = core.Violate("bookkeeping-command-forwarded", "opinfo", "the target received %s", a.String())
					return
				}
			}
			got["incremental"] = inc
			scriptsOn["incremental"] = nsc
		})
		c.Absorb(s)
		if viol != nil {
			return viol
		}
		wantSc := nScriptCmds
		if cs.f.FilterLua || !cs.f.dbPasses(scriptDB) {
			wantSc = 0 // script commands issued in an excluded database are excluded with it
		}
		if scriptsOn["incremental"] != wantSc {
			return core.Violate("script-commands", fmt.Sprintf("incremental,filter.lua=%v", cs.f.FilterLua), "%d script commands reached the target, %d expected (filter.lua=%v)", scriptsOn["incremental"], wantSc, cs.f.FilterLua)
		}
	}
	// ---- path 3: restore mode
	{
		cs.applyConf(conf.TypeRestore)
		conf.Options.Parallel = 1 + t.Choose(3)
		conf.Options.HttpProfile = -1
		in := filepath.Join(c.TmpDir, "c06.rdb")
		os.WriteFile(in, cs.rdb(), 0644)
		conf.Options.SourceRdbInput = []string{in}
		s := simrt.Run(c.TT, t, cfg, func(s *simrt.Sim) {
			net := simnet.New(s)
			tgt := modelredis.NewServer(s, net, "target", tgtAddr)
			tgt.Password = tgtPassword
			proc := s.NewProc("tool")
			done := false
			s.GoProc(proc, "restore-main", func() { (&run.CmdRestore{}).Main(); done = true })
			for i := 0; i < 3000 && !done && s.Alive(proc); i++ {
				s.Sleep(100 * time.Millisecond)
			}
			if !done {
				viol = core.Violate("abort", "restore", "restore mode did not finish: %s", lc.LastPanic())
				return
			}
			got["restore"] = present(tgt, cs.keys, cs.f.TargetDB)
			scriptsOn["restore"] = len(tgt.Scripts)
		})
		c.Absorb(s)
		if viol != nil {
			return viol
		}
	}
	// ---- path 4: rump
	{
		cs.applyConf(conf.TypeRump)
		conf.Options.ScanKeyNumber = uint32([]int{100, 2}[t.Choose(2)])
		s := simrt.Run(c.TT, t, cfg, func(s *simrt.Sim) {
			net := simnet.New(s)
			src := modelredis.NewServer(s, net, "source", srcAddr)
			src.Password = srcPassword
			tgt := modelredis.NewServer(s, net, "target", tgtAddr)
			tgt.Password = tgtPassword
			for _, k := range cs.keys {
				src.Plant(k.db, k.key, &modelredis.Entry{Val: &rc.Value{Kind: rc.KString, Str: []byte("v:" + k.key)}})
			}
			proc := s.NewProc("tool")
			done := false
			s.GoProc(proc, "rump-main", func() { (&run.CmdRump{}).Main(); done = true })
			for i := 0; i < 3000 && !done && s.Alive(proc); i++ {
				s.Sleep(100 * time.Millisecond)
			}
			if !done {
				viol = core.Violate("abort", "rump", "rump did not finish: %s", lc.LastPanic())
				return
			}
			got["rump"] = present(tgt, cs.keys, cs.f.TargetDB)
		})
		c.Absorb(s)
		if viol != nil {
			return viol
		}
	}
	// ---- oracle: each path against the statement, key by key
	for _, path := range []string{"full", "incremental", "restore", "rump"} {
		for _, k := range cs.keys {
			id := fmt.Sprintf("%d/%s", k.db, k.key)
			want := cs.passes(path, k)
			have := got[path][id]
			if want != have {
				cl := "excluded-key-copied"
				if want {
					cl = "admitted-key-dropped"
				}
				return core.Violate(cl, "path="+path+","+keyClass(k.key, cs), "path %s: key %q in db %d: the configuration says copy=%v, observed copy=%v", path, k.key, k.db, want, have)
			}
		}
	}
	for _, path := range []string{"full", "restore"} {
		want := len(cs.scripts)
		if cs.f.FilterLua {
			want = 0
		}
		if scriptsOn[path] != want {
			return core.Violate("lua-scripts", fmt.Sprintf("path=%s,filter.lua=%v,keyfilter=%v,dbfilter=%v,slots=%v", path, cs.f.FilterLua, cs.f.hasKeyFilter(), len(cs.f.DBWhite)+len(cs.f.DBBlack) > 0, cs.slots != nil),
				"path %s: %d Lua scripts loaded on the target, %d expected (filter.lua=%v)", path, scriptsOn[path], want, cs.f.FilterLua)
		}
	}
	if cs.f.hasKeyFilter() {
		c.Probe("key_filter")
	}
	if cs.slots != nil {
		c.Probe("slot_filter")
	}
	if cs.f.TargetDB != -1 {
		c.Probe("target_db")
	}
	for _, k := range cs.keys {
		if strings.HasPrefix(k.key, "redis-shake-checkpoint") {
			c.Probe("checkpoint_key_in_keyspace")
			break
		}
	}
	c.Nontrivial = true
	return nil
}

func keyClass(k string, cs *c06Case) string {
	switch {
	case strings.HasPrefix(k, "redis-shake-checkpoint"):
		return "checkpoint-key"
	case k == "lua":
		return "key-named-lua"
	}
	return "ordinary-key"
}

func init() {
	core.Register(&core.Prop{
		ID:         "C06",
		Run:        runC06,
		QuickRuns:  2500,
		PerProcess: 60,
		Rule: "one run = one tape-drawn keyspace (keys that are prefixes/extensions of the listed prefixes, hash tags, the tool's checkpoint keys, the key 'lua', dbs 0/1/2/10/11/12, Lua scripts) and one filter configuration " +
			"(key whitelist or blacklist or none; db whitelist/blacklist incl. '1' vs db 10-12; slot list from reference slots; filter.lua) pushed through four paths in three simulated runs: full sync + incremental sync " +
			"(same keys as SET commands, script commands in any case, opinfo), CmdRestore.Main(), CmdRump.Main(); oracle: per path and key, copied iff the statement's predicate says so (checkpoint keys never by full sync/restore and by no path " +
			"once a key filter is set; slot list only in the full phase), scripts loaded/forwarded iff filter.lua is off, opinfo never; distinct = hash of (schedules, workload); every run is non-trivial",
		Assumptions: []string{
			"values are plain strings: the subject is the filter decision, not the restore route",
			"rump and incremental sync copy checkpoint-named keys when no key filter is configured, as the statement says",
		},
		RealVsStub: "real: filter package via dbSync full + incremental phases, run.CmdRestore, run.CmdRump; simulated: TCP, master/source/target models, clock, scheduling",
		ProbeNames: []string{"key_filter", "slot_filter", "checkpoint_key_in_keyspace", "target_db"},
	})
}
