package props

import (
	"fmt"
	"sort"
	"strconv"
	"strings"
	"time"

	"github.com/alibaba/RedisShake/pkg/simrt"
	"github.com/alibaba/RedisShake/redis-shake/checkpoint"
	conf "github.com/alibaba/RedisShake/redis-shake/configure"

	"verifsim/core"
	"verifsim/env"
	"verifsim/modelredis"
	rc "verifsim/refcodec"
	"verifsim/simnet"
)

// C14 — resume picks its own source's newest checkpoint and reads what the sender wrote.

type ckptState struct {
	fields map[string]string // field -> value of the checkpoint hash in one db
}

func runC14(c *core.Ctx) *core.Violation {
	if c.T.Choose(6) == 5 {
		return runC14Sender(c)
	}
	return runC14History(c)
}

// runC14Sender decides the last clause with the real writer: a DbSyncer runs a generated multi-db stream into the
// target model, the tool process is killed, and the loader must read back exactly what the sender left there.
func runC14Sender(c *core.Ctx) *core.Violation {
	t := c.T
	c.Sub = "sender"
	env.DefaultOptions(conf.TypeSync)
	lc := env.CaptureLog("info", 2<<20)
	conf.Options.ResumeFromBreakPoint = true
	conf.Options.Metric = true
	conf.Options.KeyExists = "rewrite"
	conf.Options.TargetReplace = true
	conf.Options.SenderCount = uint([]int{1024, 1, 3}[t.Choose(3)])
	o0 := int64([]int{0, 1000, 4294967296}[t.Choose(3)])
	cmds, stream := GenStream(t, StreamOpts{MaxCmds: 25, DBs: 4, StartDB: -1, MinCmds: 4, NoScripts: true})
	want := ExpectedForward(cmds, FilterCfg{TargetDB: -1})
	if len(want) < 1 {
		return nil
	}
	var rel []modelredis.Release
	at := time.Second
	for _, cm := range cmds {
		if t.Choose(2) == 0 {
			at += time.Duration(t.Choose(1500)) * time.Millisecond
		}
		rel = append(rel, modelredis.Release{Upto: cm.EndOff, At: at})
	}
	rel = append(rel, modelredis.Release{Upto: len(stream), At: at})
	lastRelease := at
	killAt := time.Duration(t.Choose(int(lastRelease/time.Millisecond)+4000)) * time.Millisecond
	dbsSeen := map[int]bool{}
	for _, w := range want {
		dbsSeen[w.DB] = true
	}
	c.Sample = map[string]interface{}{"sub": "sender", "o0": o0, "commands": len(cmds), "forwarded": len(want), "dbs_written": len(dbsSeen), "kill_at": killAt.String(), "last_release": lastRelease.String()}
	var viol *core.Violation
	var e *SyncEnv
	s := simrt.Run(c.TT, t, simrt.Config{MaxSteps: 3000000, MaxSimTime: time.Hour, Trace: c.Trace}, func(s *simrt.Sim) {
		e = NewSyncEnv(c, s, lc)
		e.Src.O0, e.Src.Stream, e.Src.Release = o0, stream, rel
		e.Src.RDB, _ = smallRDB(t, 1)
		e.StartTool()
		// some incarnations are killed mid-stream, the others after everything was applied
		e.WaitUntil(lastRelease+60*time.Second, 50*time.Millisecond, func() bool {
			off, _, _, _ := storedCheckpoint(e.Tgt, srcAddr)
			return off >= 0 && (s.Now() >= killAt+time.Second || (len(e.IncrLog()) >= len(want) && s.Now() > lastRelease+2*time.Second))
		})
		if e.ToolAborted() {
			viol = core.Violate("abort", "sender,err="+env.ErrClass(e.AbortText()), "the tool aborted without an injected fault: %s", e.AbortText())
			return
		}
		s.Fault("tool_crash")
		s.Crash(e.Tool)
		s.Sleep(300 * time.Millisecond)
		wantOff, wantDB, wantRun, _ := storedCheckpoint(e.Tgt, srcAddr)
		if wantOff < 0 {
			return // nothing was stored yet
		}
		stored := map[int]int64{}
		for _, d := range e.Tgt.DBIDs() {
			if en := e.Tgt.Get(d, "redis-shake-checkpoint"); en != nil {
				for _, p := range en.Val.Hash {
					if string(p.F) == srcAddr+"-offset" {
						stored[d], _ = strconv.ParseInt(string(p.V), 10, 64)
					}
				}
			}
		}
		proc := s.NewProc("loader")
		var runid string
		var off int64
		var db int
		var err error
		finished := false
		s.GoProc(proc, "load", func() {
			runid, off, db, err = checkpoint.LoadCheckpoint(0, srcAddr, []string{tgtAddr}, "auth", tgtPassword, "redis-shake-checkpoint", false, false)
			finished = true
		})
		for i := 0; i < 2000 && !finished && s.Alive(proc); i++ {
			s.Sleep(10 * time.Millisecond)
		}
		site := fmt.Sprintf("sender,dbs=%d", minI(len(stored), 3))
		switch {
		case proc.Panicked:
			viol = core.Violate("go-panic", "load-after-sender", "Go panic in LoadCheckpoint: %s", firstLines(proc.PanicMsg, 6))
		case proc.Exited:
			viol = core.Violate("abort", "load-after-sender,err="+env.ErrClass(lc.LastPanic()), "LoadCheckpoint aborted: %s", lc.LastPanic())
		case !finished:
			viol = core.Violate("load-hangs", "sender", "LoadCheckpoint did not return: %v", s.TaskStates())
		case err != nil:
			viol = core.Violate("sender-checkpoint-refused", site, "the loader refuses what the sender stored (checkpoint offsets per db %v): %v", stored, err)
		case off != wantOff:
			viol = core.Violate("sender-readback", site+",offset", "the sender's newest stored offset is %d (db %d) but the loader returned %d (db %d); stored %v", wantOff, wantDB, off, db, stored)
		case runid != e.Src.RunID || wantRun != e.Src.RunID:
			viol = core.Violate("sender-readback", site+",runid", "the source announced run id %q, the newest checkpoint (db %d) stores %q and the loader returned %q", e.Src.RunID, wantDB, wantRun, runid)
		case stored[db] != wantOff:
			viol = core.Violate("sender-readback", site+",db", "the loader returned db %d whose stored offset is %d; the newest offset %d is in db %d", db, stored[db], wantOff, wantDB)
		case off < o0 || off > o0+int64(len(stream)):
			viol = core.Violate("sender-readback", site+",range", "offset %d is outside the stream [%d,%d]", off, o0, o0+int64(len(stream)))
		}
		if len(stored) > 1 {
			c.Probe("sender_wrote_several_dbs")
		}
	})
	c.Absorb(s)
	c.Log = lc.Tail(30)
	c.Nontrivial = true
	return viol
}

func runC14History(c *core.Ctx) *core.Violation {
	t := c.T
	// the checkpoint hash is called redis-shake-checkpoint, or carries a slot suffix when the source is a cluster shard
	ckName := []string{"redis-shake-checkpoint", "redis-shake-checkpoint", "redis-shake-checkpoint-aaab", "redis-shake-checkpoint-zk3q"}[t.Choose(4)]
	otherName := "redis-shake-checkpoint"
	if ckName == otherName {
		otherName = "redis-shake-checkpoint-aaab"
	}
	env.DefaultOptions(conf.TypeSync)
	lc := env.CaptureLog("info", 1<<20)
	// source addresses: own + up to two others, prefixes/extensions of one another or containing the field words
	pool := [][]string{
		{"10.0.0.1:637", "10.0.0.1:6379", "10.0.0.1:63790"},
		{"redis-offset-host:6379", "redis-offset-host:63791", "redis:6379"},
		{"runid.example:7000", "runid.example:70001", "version.example:7000"},
		{"10.0.0.1:6379", "10.0.0.2:6379", "10.0.0.11:6379"},
		{"src", "src-offset", "src-runid"},
	}
	set := pool[t.Choose(len(pool))]
	own := set[t.Choose(len(set))]
	var sources []string
	for _, s := range set {
		if s == own || t.Choose(3) != 0 {
			sources = append(sources, s)
		}
	}
	// history of checkpoint writes / clears over dbs 0..5
	state := map[int]*ckptState{}
	get := func(db int) *ckptState {
		if state[db] == nil {
			state[db] = &ckptState{fields: map[string]string{}}
		}
		return state[db]
	}
	nops := 1 + t.Choose(10)
	var hist []string
	for i := 0; i < nops; i++ {
		src := sources[t.Choose(len(sources))]
		db := []int{0, 1, 2, 3, 4, 5, 10, 12, 15}[t.Choose(9)] // two-digit databases share a first digit with others
		st := get(db)
		switch t.Choose(8) {
		case 0: // clear run id (partial clear)
			delete(st.fields, src+"-runid")
			hist = append(hist, fmt.Sprintf("clear-runid %s db%d", src, db))
		case 1: // clear offset
			delete(st.fields, src+"-offset")
			hist = append(hist, fmt.Sprintf("clear-offset %s db%d", src, db))
		case 2: // what ClearCheckpoint of a later run does: both removed, version stays
			delete(st.fields, src+"-runid")
			delete(st.fields, src+"-offset")
			hist = append(hist, fmt.Sprintf("clear-both %s db%d", src, db))
		default:
			off := int64(t.Choose(2000))
			if t.Choose(4) == 3 {
				off = 4294967296 + int64(t.Choose(100))
			}
			st.fields[src+"-runid"] = fmt.Sprintf("%040x", 1000+t.Choose(5))
			st.fields[src+"-offset"] = strconv.FormatInt(off, 10)
			switch t.Choose(6) {
			case 0:
				st.fields[src+"-version"] = "0"
			case 1:
				delete(st.fields, src+"-version")
			default:
				st.fields[src+"-version"] = "1"
			}
			hist = append(hist, fmt.Sprintf("write %s db%d off=%d ver=%q", src, db, off, st.fields[src+"-version"]))
		}
	}
	// reference: newest own checkpoint
	type cand struct {
		db       int
		off      int64
		runid    string
		hasRunid bool
		ver      int
	}
	var cands []cand
	for db, st := range state {
		v, ok := st.fields[own+"-offset"]
		if !ok {
			continue
		}
		o, _ := strconv.ParseInt(v, 10, 64)
		cd := cand{db: db, off: o}
		cd.runid, cd.hasRunid = st.fields[own+"-runid"]
		if vs, ok := st.fields[own+"-version"]; ok {
			cd.ver, _ = strconv.Atoi(vs)
		}
		cands = append(cands, cd)
	}
	sort.Slice(cands, func(i, j int) bool {
		if cands[i].off != cands[j].off {
			return cands[i].off > cands[j].off
		}
		return cands[i].db < cands[j].db
	})
	c.Sample = map[string]interface{}{"own": own, "sources": sources, "history": hist}
	c.Key = hashBytes([]byte(fmt.Sprint(own, sources, hist)))
	cut := t.Choose(6) == 5
	plantOther := t.Choose(4) == 3
	var viol *core.Violation
	var tgt *modelredis.Server
	s := simrt.Run(c.TT, t, simrt.Config{MaxSteps: 500000, MaxSimTime: time.Hour, Trace: c.Trace}, func(s *simrt.Sim) {
		net := simnet.New(s)
		tgt = modelredis.NewServer(s, net, "target", tgtAddr)
		tgt.Password = tgtPassword
		if t.Choose(2) == 1 {
			p := simnet.Profile{Split: 300, Latency: 300, MaxDelayMs: 20, ShortRead: 100}
			tgt.L.ToClient, tgt.L.ToServer = p, p
		}
		var dbs []int
		for db := range state {
			dbs = append(dbs, db)
		}
		sort.Ints(dbs) // never draw from the tape in map order
		for _, db := range dbs {
			st := state[db]
			if len(st.fields) > 0 {
				h := &rc.Value{Kind: rc.KHash}
				var fs []string
				for f := range st.fields {
					fs = append(fs, f)
				}
				sort.Strings(fs)
				for _, f := range fs {
					h.Hash = append(h.Hash, rc.Pair{F: []byte(f), V: []byte(st.fields[f])})
				}
				tgt.Plant(db, ckName, &modelredis.Entry{Val: h})
				if plantOther {
					// the same fields under the other name (a run of this source with / without a slot range): not ours to touch
					tgt.Plant(db, otherName, &modelredis.Entry{Val: &rc.Value{Kind: rc.KHash, Hash: append([]rc.Pair(nil), h.Hash...)}})
				}
			}
			if t.Choose(2) == 1 {
				tgt.Plant(db, fmt.Sprintf("data:%d", db), &modelredis.Entry{Val: &rc.Value{Kind: rc.KString, Str: []byte("x")}})
			}
		}
		// a db with data but no checkpoint at all
		tgt.Plant(7, "only-data", &modelredis.Entry{Val: &rc.Value{Kind: rc.KString, Str: []byte("y")}})
		if cut {
			tgt.L.OnAccept = func(cl, sv *simnet.Conn) { sv.CutAfterTotal(int64(10 + t.Choose(200))) }
		}
		proc := s.NewProc("tool")
		var runid string
		var off int64
		var db int
		var err error
		finished := false
		s.GoProc(proc, "load", func() {
			runid, off, db, err = checkpoint.LoadCheckpoint(0, own, []string{tgtAddr}, "auth", tgtPassword, ckName, false, false)
			finished = true
		})
		for i := 0; i < 2000 && !finished && s.Alive(proc); i++ {
			s.Sleep(10 * time.Millisecond)
		}
		if proc.Panicked {
			if cut {
				return // a reset connection may abort the loader; never a wrong checkpoint
			}
			viol = core.Violate("go-panic", "load", "Go panic in LoadCheckpoint: %s", firstLines(proc.PanicMsg, 6))
			return
		}
		if proc.Exited {
			if cut {
				return
			}
			viol = core.Violate("abort", "err="+env.ErrClass(lc.LastPanic()), "LoadCheckpoint aborted: %s", lc.LastPanic())
			return
		}
		if !finished {
			viol = core.Violate("load-hangs", "", "LoadCheckpoint did not return: %v", s.TaskStates())
			return
		}
		if cut {
			c.Fault("conn_cut_during_load")
			if err != nil {
				c.Probe("cut_reported_as_error")
				return
			}
			// the cut may have come after everything was read: then the answer must be right (checked below)
		}
		site := fmt.Sprintf("sources=%d", len(sources))
		if len(cands) == 0 {
			if err != nil {
				viol = core.Violate("no-checkpoint", site+",error", "no checkpoint of %q exists but LoadCheckpoint failed: %v", own, err)
			} else if off != -1 {
				viol = core.Violate("no-checkpoint", site+",offset", "no checkpoint of %q exists but LoadCheckpoint returned offset %d (run id %q, db %d)", own, off, runid, db)
			}
			return
		}
		best := cands[0]
		anyOld, anyNew := false, false
		for _, cd := range cands {
			if cd.off != best.off {
				break
			}
			if cd.ver < 1 {
				anyOld = true
			} else {
				anyNew = true
			}
		}
		if err != nil {
			if !anyOld {
				viol = core.Violate("load-error", site, "LoadCheckpoint failed although a valid checkpoint exists: %v", err)
			} else {
				c.Probe("old_version_refused")
			}
			return
		}
		if !anyNew {
			viol = core.Violate("old-version-accepted", site, "the newest checkpoint of %q (db %d, offset %d) has version %d but was accepted", own, best.db, best.off, best.ver)
			return
		}
		if off != best.off {
			viol = core.Violate("wrong-offset", site, "LoadCheckpoint returned offset %d; the newest checkpoint of %q is %d (db %d); candidates %v", off, own, best.off, best.db, cands)
			return
		}
		// ties: any arg-max
		okTie := false
		for _, cd := range cands {
			if cd.off != best.off {
				break
			}
			if cd.ver < 1 {
				continue
			}
			wantRun, wantDB := cd.runid, cd.db
			if !cd.hasRunid {
				wantRun, wantDB = "?", -1
			}
			if runid == wantRun && db == wantDB {
				okTie = true
			}
		}
		if !okTie {
			wr, wd := best.runid, best.db
			if !best.hasRunid {
				wr, wd = "?", -1
			}
			viol = core.Violate("wrong-runid-or-db", site+fmt.Sprintf(",hasrunid=%v", best.hasRunid), "LoadCheckpoint returned run id %q db %d; the newest checkpoint of %q says run id %q db %d", runid, db, own, wr, wd)
			return
		}
		// side effects: other sources untouched; own stale run id / offset removed from the other dbs
		for _, d := range dbs {
			st := state[d]
			if plantOther && len(state[d].fields) > 0 {
				if oe := tgt.Get(d, otherName); oe == nil || len(oe.Val.Hash) != len(state[d].fields) {
					viol = core.Violate("foreign-field-modified", site+",other-checkpoint-name", "the hash %q in db %d (another checkpoint name) was modified while loading %q", otherName, d, ckName)
					return
				}
			}
			e := tgt.Get(d, ckName)
			now := map[string]string{}
			if e != nil {
				for _, p := range e.Val.Hash {
					now[string(p.F)] = string(p.V)
				}
			}
			var fnames []string
			for f := range st.fields {
				fnames = append(fnames, f)
			}
			sort.Strings(fnames)
			for _, f := range fnames {
				v := st.fields[f]
				isOwnStale := (f == own+"-runid" || f == own+"-offset") && d != db
				if isOwnStale {
					if _, still := now[f]; still {
						if cut && strings.Contains(lc.String(), "clear old checkpoint failed") {
							// the injected reset hit the clearing pass: removal is impossible and the loader says so;
							// the answer (checked above) and foreign fields (checked below) must still be right
							c.Probe("cut_during_clear")
							continue
						}
						viol = core.Violate("stale-not-removed", site, "field %q in db %d is a stale checkpoint of %q (resuming from db %d) but was not removed", f, d, own, db)
						return
					}
					continue
				}
				if now[f] != v {
					viol = core.Violate("foreign-field-modified", site, "field %q in db %d was %q and is now %q", f, d, v, now[f])
					return
				}
			}
		}
		if len(sources) > 1 {
			c.Probe("several_sources")
		}
	})
	c.Absorb(s)
	c.Log = lc.Tail(30)
	c.Nontrivial = len(hist) > 0
	return viol
}

func init() {
	core.Register(&core.Prop{
		ID:         "C14",
		Run:        runC14,
		QuickRuns:  8000,
		PerProcess: 400,
		Rule: "one run = checkpoint.LoadCheckpoint over a simulated connection to a target model whose state is reached by a tape-drawn history of 1-10 checkpoint writes and partial clears from 1-3 sources " +
			"(addresses that are prefixes/extensions of one another, or contain the words offset/runid/version) into dbs 0-5, versions 0/1/missing, interleaved with data keys; 1/6 of the runs cut the connection after 10-210 bytes; " +
			"oracle: returned (run id, offset, db) = the own-source entry with the greatest offset (any arg-max on ties; '?'/-1 if it lacks a run id; -1 if none), version < 1 refused, other sources' fields untouched, own stale fields removed elsewhere; " +
			"distinct = hash of the history; non-trivial = at least one write",
		Assumptions: []string{
			"1/6 of the runs ('sender') let the real DbSyncer write the checkpoints (multi-db stream, killed mid-stream or after it) and require the loader to return exactly the newest stored (offset, run id, db); resume through those checkpoints is C04/C08",
			"a cut connection may surface as an error or as an abort of the loader; only a wrong answer is a violation",
		},
		RealVsStub: "real: checkpoint.LoadCheckpoint/fetchCheckpoint/ClearCheckpoint, utils.ParseKeyspace, redigo, and in sender runs the whole DbSyncer (sendTargetCommand writes the checkpoints); simulated: TCP incl. cut, target model, clock, scheduling",
		ProbeNames: []string{"several_sources", "old_version_refused", "cut_reported_as_error", "cut_during_clear", "sender_wrote_several_dbs"},
		FaultNames: []string{"conn_cut", "conn_cut_during_load", "tool_crash"},
	})
}
