package props

import (
	"bytes"
	"fmt"
	"sort"
	"strconv"
	"strings"
	"sync"
	"time"

	"golang.org/x/sync/semaphore"

	"github.com/alibaba/RedisShake/pkg/simrt"
	"github.com/alibaba/RedisShake/pkg/simrt/tape"
	"github.com/alibaba/RedisShake/redis-shake/base"
	utils "github.com/alibaba/RedisShake/redis-shake/common"
	conf "github.com/alibaba/RedisShake/redis-shake/configure"
	"github.com/alibaba/RedisShake/redis-shake/dbSync"
	"github.com/alibaba/RedisShake/redis-shake/dbSync/slot"
	"github.com/alibaba/RedisShake/redis-shake/metric"

	"verifsim/core"
	"verifsim/env"
	"verifsim/modelredis"
	rc "verifsim/refcodec"
	"verifsim/simnet"
)

const (
	srcAddr = "10.0.0.1:6379"
	tgtAddr = "10.0.0.2:6379"
)

// SyncEnv is scenario SYNC: one DbSyncer between a master model and a target model.
type SyncEnv struct {
	C         *core.Ctx
	S         *simrt.Sim
	T         *tape.Tape
	Net       *simnet.Net
	Src       *modelredis.Master
	MoreSrc   []*modelredis.Master           // further sources (AddSource)
	NodeTweak func(i int, nd *slot.SyncNode) // adjusts the node descriptor of source i >= 1 (slot boundaries of a shard)
	Tgt       *modelredis.Server
	LC        *env.LogCapture
	Tool      *simrt.Proc
	Tools     []*simrt.Proc
	DS        *dbSync.DbSyncer
	Node      slot.SyncNode
	// Phase of the tool (base.Status) when each target connection was opened, by server endpoint id
	ConnInc    map[int]int // tool incarnation (len(Tools)) that opened each target connection
	ConnPhase  map[int]string
	TgtClients []*simnet.Conn // the tool's endpoints of its target connections, in dial order
}

// NewSyncEnv builds the peers; configuration must already be in conf.Options.
func NewSyncEnv(c *core.Ctx, s *simrt.Sim, lc *env.LogCapture) *SyncEnv {
	e := &SyncEnv{C: c, S: s, T: c.T, LC: lc}
	e.Net = simnet.New(s)
	e.Src = modelredis.NewMaster(s, e.Net, "source", srcAddr)
	e.Src.Password = srcPassword
	e.Tgt = modelredis.NewServer(s, e.Net, "target", tgtAddr)
	e.Tgt.Password = tgtPassword
	e.ConnPhase = map[int]string{}
	e.ConnInc = map[int]int{}
	e.Tgt.L.OnAccept = func(cl, sv *simnet.Conn) {
		e.ConnPhase[sv.ID] = base.Status
		e.ConnInc[sv.ID] = len(e.Tools)
		e.TgtClients = append(e.TgtClients, cl)
	}
	conf.Options.SourceAddressList = []string{srcAddr}
	conf.Options.TargetAddressList = []string{tgtAddr}
	conf.Options.SourcePasswordRaw = srcPassword
	conf.Options.TargetPasswordRaw = tgtPassword
	conf.Options.HttpProfile = 9320
	e.Node = slot.SyncNode{Id: 0, Source: srcAddr, SourcePassword: srcPassword, Target: []string{tgtAddr}, TargetPassword: tgtPassword,
		SlotLeftBoundary: -1, SlotRightBoundary: -1}
	return e
}

// StartTool starts a fresh incarnation of the tool process running DbSyncer.Sync().
func (e *SyncEnv) StartTool() {
	metric.MetricMap = new(sync.Map)
	base.Status = "null"
	utils.TargetRoundRobin = 0
	p := e.S.NewProc(fmt.Sprintf("tool#%d", len(e.Tools)))
	e.Tools = append(e.Tools, p)
	e.Tool = p
	node := e.Node
	sem := semaphore.NewWeighted(int64(conf.Options.SourceRdbParallel))
	e.S.GoProc(p, "tool-main", func() {
		ds := dbSync.NewDbSyncer(&node, conf.Options.HttpProfile, sem)
		e.DS = ds
		ds.Sync()
	})
	for i, m := range e.MoreSrc {
		nd := e.Node
		nd.Id = i + 1
		nd.Source = m.Addr
		if e.NodeTweak != nil {
			e.NodeTweak(i+1, &nd)
		}
		e.S.GoProc(p, fmt.Sprintf("tool-main-%d", i+1), func() {
			dbSync.NewDbSyncer(&nd, conf.Options.HttpProfile+nd.Id, sem).Sync()
		})
	}
}

// AddSource adds one more master model; StartTool then runs one DbSyncer per source in the same tool process, the way
// sync mode does for several source addresses (node ids 0,1,...).
func (e *SyncEnv) AddSource() *modelredis.Master {
	i := len(e.MoreSrc) + 1
	addr := fmt.Sprintf("10.0.0.%d:6379", 10+i)
	m := modelredis.NewMaster(e.S, e.Net, fmt.Sprintf("source-%d", i), addr)
	m.Password = srcPassword
	m.RunID = strings.Repeat(fmt.Sprintf("%02x", 0x40+i), 20)
	e.MoreSrc = append(e.MoreSrc, m)
	conf.Options.SourceAddressList = append(conf.Options.SourceAddressList, addr)
	return m
}

// CommandsByConn groups what the target applied by connection, minus the tool's bookkeeping (SELECT, PING, INFO,
// checkpoint fields): with several syncers in one process base.Status no longer tells the phases apart.
func (e *SyncEnv) CommandsByConn() (ids []int, by map[int][]modelredis.Applied) {
	by = map[int][]modelredis.Applied{}
	for _, a := range e.Tgt.Applied {
		switch a.Name() {
		case "select", "ping", "info", "config", "auth":
			continue
		case "hset", "hdel", "hgetall", "exists":
			if len(a.Args) >= 2 && bytes.HasPrefix(a.Args[1], []byte("redis-shake-checkpoint")) {
				continue
			}
		}
		if _, ok := by[a.NetID]; !ok {
			ids = append(ids, a.NetID)
		}
		by[a.NetID] = append(by[a.NetID], a)
	}
	sort.Ints(ids)
	return
}

// ToolAborted reports whether the current incarnation died on its own (os.Exit / Go panic).
func (e *SyncEnv) ToolAborted() bool { return e.Tool != nil && (e.Tool.Exited || e.Tool.Panicked) }

func (e *SyncEnv) AbortText() string {
	if e.Tool != nil && e.Tool.Panicked {
		return "Go panic: " + firstLines(e.Tool.PanicMsg, 5)
	}
	return e.LC.LastPanic()
}

// WaitUntil polls cond every step of simulated time until it holds, the tool aborts, or max elapses.
func (e *SyncEnv) WaitUntil(max, step time.Duration, cond func() bool) bool {
	deadline := e.S.Now() + max
	for e.S.Now() < deadline {
		if cond() {
			return true
		}
		if e.ToolAborted() {
			return cond()
		}
		e.S.Sleep(step)
	}
	return cond()
}

// ---- command streams ------------------------------------------------------------------

// Cmd is one command of a source replication stream with the db it was issued in.
type Cmd struct {
	Args    [][]byte
	DB      int    // db selected on the source when issued (-1 before any SELECT)
	Raw     []byte // its encoding in the stream
	EndOff  int    // stream index just after its last byte
	Kind    string // data | select | ping | multi | exec | hello | script | opinfo | newline
	InMulti bool
}

func (c Cmd) Name() string { return strings.ToLower(string(c.Args[0])) }

func respCmd(args ...[]byte) []byte {
	b := []byte("*" + strconv.Itoa(len(args)) + "\r\n")
	for _, a := range args {
		b = append(b, '$')
		b = append(b, strconv.Itoa(len(a))...)
		b = append(b, '\r', '\n')
		b = append(b, a...)
		b = append(b, '\r', '\n')
	}
	return b
}

func bs(ss ...string) [][]byte {
	out := make([][]byte, len(ss))
	for i, s := range ss {
		out[i] = []byte(s)
	}
	return out
}

// StreamOpts bounds a generated replication stream.
type StreamOpts struct {
	MaxCmds     int
	DBs         int
	NonIdem     bool // bias towards non-idempotent commands (incr, append, rpush)
	NoMulti     bool
	NoScripts   bool
	NoNoise     bool // no ping / hello / opinfo / newlines
	KeyPrefixes []string
	StartDB     int  // db selected at the start of the stream (-1: none, stream starts with SELECT)
	FewBarriers bool // no MULTI/EXEC and no SELECT after the first one (nothing forces a flush)
	MinCmds     int
	BigValues   bool  // some values of 2-7 KiB
	DBMenu      []int // if set, the databases the stream switches between (instead of 0..DBs-1)
}

func pickDB(t *tape.Tape, o StreamOpts) int {
	if len(o.DBMenu) > 0 {
		return o.DBMenu[t.Choose(len(o.DBMenu))]
	}
	return t.Choose(o.DBs)
}

// GenStream draws a replication stream as a master would emit it.
func GenStream(t *tape.Tape, o StreamOpts) (cmds []Cmd, stream []byte) {
	if o.MaxCmds == 0 {
		o.MaxCmds = 30
	}
	if o.DBs == 0 {
		o.DBs = 3
	}
	curDB := o.StartDB
	uniq := 0
	add := func(kind string, inMulti bool, args ...[]byte) {
		raw := respCmd(args...)
		stream = append(stream, raw...)
		cmds = append(cmds, Cmd{Args: args, DB: curDB, Raw: raw, EndOff: len(stream), Kind: kind, InMulti: inMulti})
	}
	sel := func(db int) {
		curDB = db
		name := "SELECT"
		if t.Choose(4) == 3 {
			name = "select"
		}
		add("select", false, []byte(name), []byte(strconv.Itoa(db)))
	}
	key := func() []byte {
		var k string
		switch t.Choose(5) {
		case 0, 1, 2:
			k = fmt.Sprintf("k%d", t.Choose(6))
		case 3:
			k = fmt.Sprintf("user:%d", t.Choose(4))
		default:
			k = fmt.Sprintf("{tag}x%d", t.Choose(3))
		}
		if len(o.KeyPrefixes) > 0 && t.Choose(2) == 1 {
			k = o.KeyPrefixes[t.Choose(len(o.KeyPrefixes))] + k
		}
		return []byte(k)
	}
	val := func() []byte {
		uniq++
		if o.BigValues && t.Choose(5) == 4 {
			// a value of several kilobytes: a handful of them makes a burst larger than the 8 KiB copy buffer
			b := []byte(fmt.Sprintf("big%d:", uniq))
			n := 2000 + t.Choose(5000)
			for len(b) < n {
				b = append(b, byte('a'+len(b)%26))
			}
			return b
		}
		if t.Choose(24) == 23 {
			return []byte{} // the empty string ($0)
		}
		if t.Choose(6) == 5 {
			return append([]byte(fmt.Sprintf("v%d:", uniq)), t.Bytes(t.Choose(20), []byte("ab\r\n \x00\xff"))...)
		}
		return []byte(fmt.Sprintf("v%d", uniq))
	}
	data := func(inMulti bool) {
		n := 12
		k := t.Choose(n)
		if o.NonIdem && t.Choose(2) == 0 {
			k = []int{2, 3, 4, 9}[t.Choose(4)]
		}
		switch k {
		case 0, 1:
			add("data", inMulti, []byte("SET"), key(), val())
		case 2:
			add("data", inMulti, []byte("INCR"), []byte(fmt.Sprintf("ctr%d", t.Choose(3))))
		case 3:
			add("data", inMulti, []byte("APPEND"), []byte(fmt.Sprintf("log%d", t.Choose(2))), val())
		case 4:
			add("data", inMulti, []byte("RPUSH"), []byte(fmt.Sprintf("list%d", t.Choose(2))), val())
		case 5:
			add("data", inMulti, []byte("HSET"), []byte(fmt.Sprintf("hash%d", t.Choose(2))), []byte(fmt.Sprintf("f%d", t.Choose(4))), val())
		case 6:
			add("data", inMulti, []byte("SADD"), []byte("set0"), val())
		case 7:
			add("data", inMulti, []byte("ZADD"), []byte("zset0"), []byte(strconv.Itoa(t.Choose(100))), val())
		case 8:
			add("data", inMulti, []byte("DEL"), key())
		case 9:
			add("data", inMulti, []byte("INCRBY"), []byte(fmt.Sprintf("ctr%d", t.Choose(3))), []byte(strconv.Itoa(1+t.Choose(9))))
		case 10:
			add("data", inMulti, []byte("MSET"), key(), val(), key(), val())
		default:
			add("data", inMulti, []byte("PEXPIREAT"), key(), []byte(strconv.FormatInt(epochMs+3600000+int64(t.Choose(1000)), 10)))
		}
	}
	if curDB < 0 {
		sel(pickDB(t, o))
	}
	n := 1 + t.Choose(o.MaxCmds)
	if n < o.MinCmds {
		n = o.MinCmds
	}
	for i := 0; i < n; i++ {
		r := t.Choose(20)
		if o.FewBarriers && (r == 1 || r == 2) {
			r = 10
		}
		switch {
		case r == 0 && !o.NoNoise:
			add("ping", false, []byte([]string{"PING", "ping"}[t.Choose(2)]))
		case r == 1:
			sel(pickDB(t, o))
		case r == 2 && !o.NoMulti:
			add("multi", false, []byte("MULTI"))
			k := t.Choose(4)
			for j := 0; j < k; j++ {
				data(true)
			}
			add("exec", false, []byte("EXEC"))
		case r == 3 && !o.NoNoise:
			add("hello", false, []byte([]string{"PUBLISH", "publish"}[t.Choose(2)]), []byte("__sentinel__:hello"), []byte("10.0.0.9,26379,abc,1,mymaster,10.0.0.1,6379,1"))
		case r == 4 && !o.NoScripts:
			switch t.Choose(3) {
			case 0:
				add("script", false, []byte([]string{"EVAL", "eval", "Eval"}[t.Choose(3)]), []byte("return 1"), []byte("0"))
			case 1:
				add("script", false, []byte([]string{"SCRIPT", "script"}[t.Choose(2)]), []byte("load"), []byte("return 2"))
			default:
				add("script", false, []byte([]string{"EVALSHA", "evalsha"}[t.Choose(2)]), []byte(strings.Repeat("ab", 20)), []byte("0"))
			}
		case r == 5 && !o.NoNoise:
			add("opinfo", false, []byte([]string{"OPINFO", "opinfo"}[t.Choose(2)]), []byte("x"), []byte("1"))
		case r == 6 && !o.NoNoise:
			k := 1 + t.Choose(2)
			raw := bytes.Repeat([]byte{'\n'}, k)
			stream = append(stream, raw...)
			// keep-alive newlines are not commands; they only move the offsets
		default:
			data(false)
		}
	}
	return
}

// ExpectedForward computes, from the statement, what the target must apply: the filtered
// source stream in order, each command in the db selected on the source (or target.db).
type Fwd struct {
	DB     int
	Args   [][]byte
	SrcIdx int
	EndOff int
}

type FilterCfg struct {
	DBWhite, DBBlack   []string
	KeyWhite, KeyBlack []string
	FilterLua          bool
	TargetDB           int
}

func (f FilterCfg) dbPasses(db int) bool {
	s := strconv.Itoa(db)
	if len(f.DBBlack) != 0 {
		for _, x := range f.DBBlack {
			if x == s {
				return false
			}
		}
		return true
	}
	if len(f.DBWhite) != 0 {
		for _, x := range f.DBWhite {
			if x == s {
				return true
			}
		}
		return false
	}
	return true
}

func (f FilterCfg) KeyPasses(k []byte) bool {
	if bytes.HasPrefix(k, []byte("redis-shake-checkpoint")) {
		return false
	}
	if len(f.KeyBlack) != 0 {
		for _, p := range f.KeyBlack {
			if bytes.HasPrefix(k, []byte(p)) {
				return false
			}
		}
		return true
	}
	if len(f.KeyWhite) != 0 {
		for _, p := range f.KeyWhite {
			if bytes.HasPrefix(k, []byte(p)) {
				return true
			}
		}
		return false
	}
	return true
}

func (f FilterCfg) hasKeyFilter() bool { return len(f.KeyWhite) != 0 || len(f.KeyBlack) != 0 }

// keysOf returns the key positions (indices into args, 0 = command name) of the commands GenStream emits.
func keysOf(args [][]byte) []int {
	switch strings.ToLower(string(args[0])) {
	case "set", "incr", "append", "rpush", "hset", "sadd", "zadd", "incrby", "pexpireat":
		return []int{1}
	case "del":
		var ks []int
		for i := 1; i < len(args); i++ {
			ks = append(ks, i)
		}
		return ks
	case "mset":
		var ks []int
		for i := 1; i < len(args); i += 2 {
			ks = append(ks, i)
		}
		return ks
	}
	return nil
}

// ExpectedForward applies the reference filter to the generated stream.
func ExpectedForward(cmds []Cmd, f FilterCfg) []Fwd {
	var out []Fwd
	for i, c := range cmds {
		switch c.Kind {
		case "select", "ping", "multi", "exec", "hello", "opinfo":
			continue
		case "script":
			if f.FilterLua {
				continue
			}
		}
		if !f.dbPasses(c.DB) {
			continue
		}
		args := c.Args
		if f.hasKeyFilter() {
			ks := keysOf(args)
			if len(ks) > 0 {
				switch c.Name() {
				case "mset":
					na := [][]byte{args[0]}
					for _, k := range ks {
						if f.KeyPasses(args[k]) {
							na = append(na, args[k], args[k+1])
						}
					}
					if len(na) == 1 {
						continue
					}
					args = na
				case "del":
					na := [][]byte{args[0]}
					for _, k := range ks {
						if f.KeyPasses(args[k]) {
							na = append(na, args[k])
						}
					}
					if len(na) == 1 {
						continue
					}
					args = na
				default:
					if !f.KeyPasses(args[ks[0]]) {
						continue
					}
				}
			}
		}
		db := c.DB
		if f.TargetDB != -1 {
			db = f.TargetDB
		}
		out = append(out, Fwd{DB: db, Args: args, SrcIdx: i, EndOff: c.EndOff})
	}
	return out
}

// smallRDB is a tiny RDB used where the full phase is not the subject.
func smallRDB(t *tape.Tape, nkeys int) ([]byte, []rc.Record) {
	items := []rc.Item{{Kind: "selectdb", DB: 0}}
	for i := 0; i < nkeys; i++ {
		items = append(items, rc.Item{Kind: "key", Key: []byte(fmt.Sprintf("rdbkey:%d", i)), Val: &rc.Value{Kind: rc.KString, Str: []byte(fmt.Sprintf("rdbval%d", i))}, Type: rc.TString})
	}
	return rc.WriteRDB(9, items, rc.Zero, true)
}

// Diag returns lines describing what happened (attached to replay files).
func (e *SyncEnv) Diag() []string {
	var out []string
	out = append(out, "---- target applied log")
	for i, a := range e.Tgt.Applied {
		if i > 400 {
			break
		}
		out = append(out, fmt.Sprintf("%4d t=%v %s -> %s", i, a.T, a.String(), strings.TrimSpace(a.Reply)))
	}
	out = append(out, "---- source links")
	for _, l := range e.Src.Links {
		out = append(out, fmt.Sprintf("link %d kind=%s req=%s/%d start=%d sent=%d header=%d acks=%d dead=%v opened=%v", l.ID, l.Kind, l.ReqRunID, l.ReqOffset, l.StartOff, l.Sent, l.Header, len(l.Acks), l.Dead, l.OpenedAt))
	}
	out = append(out, "---- tool log tail")
	out = append(out, e.LC.Tail(60)...)
	out = append(out, "---- tasks")
	out = append(out, e.S.TaskStates()...)
	return out
}

// IncrLog returns the commands applied on incremental-phase connections, minus the tool's bookkeeping.
func (e *SyncEnv) IncrLog() []modelredis.Applied {
	var out []modelredis.Applied
	// An incarnation opens its incremental connection last. base.Status alone can mislabel a restore worker's
	// connection: after a source reconnect during the RDB transfer the tool sets the status to "incr" while the full
	// phase is still running. So: of the connections labelled incr/reopen, only the last one of each incarnation counts.
	lastOf := map[int]int{}
	for id, ph := range e.ConnPhase {
		if ph == "incr" || ph == "reopen" {
			if inc := e.ConnInc[id]; id > lastOf[inc] {
				lastOf[inc] = id
			}
		}
	}
	for _, a := range e.Tgt.Applied {
		if ph := e.ConnPhase[a.NetID]; ph != "incr" && ph != "reopen" {
			continue // null/waitfull: checkpoint loader; full: restore workers
		}
		if lastOf[e.ConnInc[a.NetID]] != a.NetID {
			continue
		}
		switch a.Name() {
		case "select", "ping":
			continue
		case "hset":
			if len(a.Args) >= 2 && bytes.HasPrefix(a.Args[1], []byte("redis-shake-checkpoint")) {
				continue
			}
		}
		out = append(out, a)
	}
	return out
}
