package worker

import (
	"encoding/json"
	"fmt"
	"os"
	"path/filepath"
	"sort"
	"strconv"
	"strings"
	"testing"
	"time"

	"github.com/alibaba/RedisShake/pkg/simrt/tape"

	"verifsim/core"
	_ "verifsim/props"
)

// Summary is what one worker process reports to the driver (one JSON line on stdout, prefixed "VSIM ").
type Summary struct {
	Prop        string                 `json:"prop"`
	Mode        string                 `json:"mode"`
	From        uint64                 `json:"from"`
	Runs        int                    `json:"runs"`
	Keys        []uint64               `json:"keys"`            // case identities (for distinct counting across workers)
	NontrivKeys []uint64               `json:"nontrivial_keys"` // identities of non-trivial cases
	Probes      map[string]int         `json:"probes"`
	Faults      map[string]int         `json:"faults"`
	Extra       map[string]int         `json:"extra"`
	Subs        map[string]int         `json:"subs"`
	SimTimeMs   int64                  `json:"sim_time_ms"`
	Steps       int64                  `json:"steps"`
	Samples     []interface{}          `json:"samples"`
	Violations  []Viol                 `json:"violations"`
	Hashes      map[string]string      `json:"hashes,omitempty"` // run -> event hash (determinism mode)
	WallMs      int64                  `json:"wall_ms"`
	Replay      *ReplayResult          `json:"replay,omitempty"`
	Info        map[string]interface{} `json:"info,omitempty"`
}

type Viol struct {
	Run       uint64      `json:"run"`
	Signature string      `json:"signature"`
	Detail    string      `json:"detail"`
	TapeFile  string      `json:"tape_file"`
	TapeLen   int         `json:"tape_len"`
	Sample    interface{} `json:"sample,omitempty"`
}

type ReplayResult struct {
	Signature string   `json:"signature"`
	Detail    string   `json:"detail"`
	EventHash string   `json:"event_hash"`
	TapeLen   int      `json:"tape_len"`
	Execs     int      `json:"execs,omitempty"`
	OutFile   string   `json:"out_file,omitempty"`
	Trace     []string `json:"trace,omitempty"`
}

func envInt(name string, def int64) int64 {
	v := os.Getenv(name)
	if v == "" {
		return def
	}
	n, err := strconv.ParseInt(v, 10, 64)
	if err != nil {
		panic(fmt.Sprintf("%s=%q: %v", name, v, err))
	}
	return n
}

func emit(s *Summary) {
	b, _ := json.Marshal(s)
	fmt.Printf("VSIM %s\n", b)
}

func TestWorker(t *testing.T) {
	id := os.Getenv("VSIM_PROP")
	if id == "" {
		t.Skip("VSIM_PROP not set")
	}
	p := core.Lookup(id)
	if p == nil {
		fmt.Printf("VSIM-ERROR unknown property %s (have %v)\n", id, core.IDs())
		os.Exit(2)
	}
	mode := os.Getenv("VSIM_MODE")
	tier := os.Getenv("VSIM_TIER")
	if tier == "" {
		tier = "quick"
	}
	seed := uint64(envInt("VSIM_SEED", 1))
	from := uint64(envInt("VSIM_FROM", 0))
	n := int(envInt("VSIM_N", 100))
	outDir := os.Getenv("VSIM_OUT")
	deadline := time.Now().Add(time.Duration(envInt("VSIM_BUDGET_MS", 3600000)) * time.Millisecond)
	start := time.Now()
	sum := &Summary{Prop: id, Mode: mode, From: from, Probes: map[string]int{}, Faults: map[string]int{}, Extra: map[string]int{}, Subs: map[string]int{}}

	known := map[string]bool{}
	knownSeen := map[string]int{}
	unlisted := 0
	for _, k := range strings.Split(os.Getenv("VSIM_KNOWN"), "\n") {
		if k != "" {
			known[k] = true
		}
	}
	switch mode {
	case "info":
		sum.Info = map[string]interface{}{
			"quick_runs": p.QuickRuns, "per_process": p.PerProcess, "rule": ruleText(p), "level": p.Level,
			"assumptions": p.Assumptions, "real_vs_stub": p.RealVsStub, "probe_names": p.ProbeNames, "fault_names": p.FaultNames,
		}
	case "gen", "hash":
		if mode == "hash" {
			sum.Hashes = map[string]string{}
		}
		for i := 0; i < n; i++ {
			if time.Now().After(deadline) {
				break
			}
			run := from + uint64(i)
			tp := tape.New(seed, run)
			c, v := core.Exec(t, p, tp, tier, false)
			sum.Runs++
			sum.Keys = append(sum.Keys, c.Key)
			if c.Nontrivial {
				sum.NontrivKeys = append(sum.NontrivKeys, c.Key)
			}
			for k, x := range c.Probes {
				sum.Probes[k] += x
			}
			for k, x := range c.Faults {
				sum.Faults[k] += x
			}
			for k, x := range c.Extra {
				sum.Extra[k] += x
			}
			if c.Sub != "" {
				sum.Subs[c.Sub]++
			}
			sum.SimTimeMs += c.SimTime.Milliseconds()
			sum.Steps += int64(c.Steps)
			if len(sum.Samples) < 2 && c.Sample != nil && (c.Nontrivial || i > n/2) {
				sum.Samples = append(sum.Samples, c.Sample)
			}
			if mode == "hash" {
				sum.Hashes[strconv.FormatUint(run, 10)] = fmt.Sprintf("%016x/%s", c.Key, v.Signature())
			}
			if v != nil {
				vf := Viol{Run: run, Signature: v.Signature(), Detail: v.Detail, TapeLen: tp.Len(), Sample: c.Sample}
				if outDir != "" {
					f := &tape.File{Property: id, Tier: tier, Seed: seed, Run: run, Signature: v.Signature(), Detail: v.Detail, Tape: tp.Vals, Trace: c.Log}
					vf.TapeFile = filepath.Join(outDir, fmt.Sprintf("viol-%s-%d-%d.json", id, seed, run))
					if err := f.Write(vf.TapeFile); err != nil {
						panic(err)
					}
				}
				if known[v.Signature()] {
					// a listed finding: keep a few examples, never let it end the sweep early
					knownSeen[v.Signature()]++
					if knownSeen[v.Signature()] <= 2 {
						sum.Violations = append(sum.Violations, vf)
					} else {
						sum.Extra["known_finding_runs_not_listed_individually"]++
						if vf.TapeFile != "" {
							os.Remove(vf.TapeFile)
						}
					}
					continue
				}
				unlisted++
				sum.Violations = append(sum.Violations, vf)
				if unlisted >= 6 {
					break
				}
			}
		}
	case "replay", "shrink":
		f, err := tape.ReadFile(os.Getenv("VSIM_TAPE"))
		if err != nil {
			fmt.Printf("VSIM-ERROR %v\n", err)
			os.Exit(2)
		}
		if f.Tier != "" && os.Getenv("VSIM_TIER") == "" {
			tier = f.Tier
		}
		vals := f.Tape
		rr := &ReplayResult{}
		if mode == "shrink" {
			small, execs := core.Shrink(t, p, vals, tier, f.Signature, int(envInt("VSIM_SHRINK_EXECS", 400)), deadline)
			vals = small
			rr.Execs = execs
		}
		tp := tape.Replay(vals)
		c, v := core.Exec(t, p, tp, tier, os.Getenv("VSIM_TRACE") != "")
		sum.Runs = 1
		rr.Signature = v.Signature()
		if v != nil {
			rr.Detail = v.Detail
		}
		rr.EventHash = fmt.Sprintf("%016x", c.Key)
		rr.TapeLen = len(vals)
		if os.Getenv("VSIM_TRACE") != "" {
			rr.Trace = c.Log
		}
		if out := os.Getenv("VSIM_REPLAY_OUT"); out != "" {
			nf := *f
			nf.Tape = vals
			nf.Tier = tier
			nf.Signature = rr.Signature
			nf.Detail = rr.Detail
			nf.EventHash = rr.EventHash
			nf.Minimised = mode == "shrink"
			if nf.OrigLen == 0 {
				nf.OrigLen = len(f.Tape)
			}
			nf.Trace = c.Log
			if err := nf.Write(out); err != nil {
				panic(err)
			}
			rr.OutFile = out
		}
		sum.Replay = rr
		if c.Sample != nil {
			sum.Samples = append(sum.Samples, c.Sample)
		}
	default:
		fmt.Printf("VSIM-ERROR unknown mode %q\n", mode)
		os.Exit(2)
	}
	sort.Slice(sum.Keys, func(i, j int) bool { return sum.Keys[i] < sum.Keys[j] })
	sum.WallMs = time.Since(start).Milliseconds()
	emit(sum)
}

func ruleText(p *core.Prop) string {
	if len(p.Added) == 0 {
		return p.Rule
	}
	return p.Rule + " || added later: " + strings.Join(p.Added, "; ")
}
