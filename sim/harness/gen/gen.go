// Package gen draws workloads (keys, values, RDB files) from a tape.
// Convention: choice 0 is the simplest alternative.
package gen

import (
	"fmt"
	"math"
	"strconv"

	"github.com/alibaba/RedisShake/pkg/simrt/tape"

	rc "verifsim/refcodec"
)

var intEdges = []string{
	"0", "1", "-1", "12", "13", "127", "128", "-128", "-129", "255", "32767", "32768", "-32768", "-32769",
	"8388607", "8388608", "-8388608", "-8388609", "2147483647", "2147483648", "-2147483648", "-2147483649",
	"9223372036854775807", "-9223372036854775808", "65535", "16383", "16384",
}
var intLookalikes = []string{"007", "+5", " 5", "5 ", "-0", "1e3", "0x10", "12345678901234567890", "", "1.0", "--1"}

// Elem draws one string element (list item, member, field, value).
func Elem(t *tape.Tape, maxLen int) []byte {
	switch t.Choose(10) {
	case 0, 1, 2:
		n := 1 + t.Choose(8)
		return t.Bytes(n, []byte("abcxyz"))
	case 3:
		return []byte(intEdges[t.Choose(len(intEdges))])
	case 4:
		return []byte(strconv.Itoa(t.Choose(100000) - 50000))
	case 5:
		return []byte(intLookalikes[t.Choose(len(intLookalikes))])
	case 6:
		return t.Bytes(t.Choose(12), nil) // binary, may be empty
	case 7:
		// compressible
		n := 21 + t.Choose(300)
		b := make([]byte, n)
		pat := t.Bytes(1+t.Choose(5), []byte("ab01\x00\xff"))
		for i := range b {
			b[i] = pat[i%len(pat)]
		}
		return b
	case 8:
		// length-boundary strings
		n := []int{63, 64, 65, 253, 254, 255, 16383, 16384, 16385, 4095, 4096, 4097, 8191, 8192, 8193, 65535, 65536, 65537}[t.Choose(18)]
		if n > maxLen {
			n = maxLen
		}
		b := make([]byte, n)
		for i := range b {
			b[i] = byte('a' + (i*7+i/13)%23)
		}
		return b
	default:
		n := t.Choose(40)
		return t.Bytes(n, []byte("abcdefgh0123 \r\n\t{}\x00\xff\x80"))
	}
}

var scoreMenu = []float64{0, 1, -1, 1.5, 2, 3.25, 1e300, -1e300, 5e-324, math.Inf(1), math.Inf(-1), math.Copysign(0, -1),
	0.1 + 0.2, 9007199254740992, -9007199254740993, 1e15, 1e15 + 1, 123456789.125, 1e-7, 4294967296}

func Score(t *tape.Tape) float64 {
	if t.Choose(4) == 3 {
		return float64(t.Choose(2001)-1000) / 8
	}
	return scoreMenu[t.Choose(len(scoreMenu))]
}

// Count draws a collection size: usually small, sometimes around the
// 100-command flush batch of the big-key restore route.
func Count(t *tape.Tape) int {
	switch t.Choose(10) {
	case 0, 1, 2, 3, 4, 5:
		return 1 + t.Choose(6)
	case 6:
		return 1
	case 7:
		return []int{99, 100, 101, 200, 201, 199, 299, 300, 301, 255, 256, 257}[t.Choose(12)]
	case 8:
		return 10 + t.Choose(30)
	default:
		return 2
	}
}

func uniq(t *tape.Tape, n, maxLen int, intsOnly bool) [][]byte {
	seen := map[string]bool{}
	var out [][]byte
	for i := 0; len(out) < n && i < 4*n+8; i++ {
		var e []byte
		if intsOnly {
			if t.Choose(3) == 0 {
				e = []byte(intEdges[t.Choose(len(intEdges))])
			} else {
				e = []byte(strconv.Itoa(t.Choose(70000) - 35000))
			}
		} else {
			e = Elem(t, maxLen)
		}
		if seen[string(e)] {
			e = append(e, []byte(fmt.Sprintf("~%d", i))...)
			if intsOnly {
				e = []byte(strconv.Itoa(1000000 + i))
			}
		}
		if seen[string(e)] {
			continue
		}
		seen[string(e)] = true
		out = append(out, e)
	}
	return out
}

// ValueOf draws a logical value of the given kind.
func ValueOf(t *tape.Tape, kind rc.Kind, maxLen int) *rc.Value {
	v := &rc.Value{Kind: kind}
	switch kind {
	case rc.KString:
		v.Str = Elem(t, maxLen)
	case rc.KList:
		n := Count(t)
		for i := 0; i < n; i++ {
			v.List = append(v.List, Elem(t, maxLen))
		}
	case rc.KSet:
		v.Set = uniq(t, Count(t), maxLen, t.Choose(3) == 2)
	case rc.KHash:
		fs := uniq(t, Count(t), maxLen, false)
		for _, f := range fs {
			v.Hash = append(v.Hash, rc.Pair{F: f, V: Elem(t, maxLen)})
		}
	case rc.KZSet:
		ms := uniq(t, Count(t), maxLen, false)
		for _, m := range ms {
			v.ZSet = append(v.ZSet, rc.ZPair{M: m, S: Score(t)})
		}
	case rc.KStream:
		sp := &rc.StreamSpec{Listpacks: t.Choose(3), Items: uint64(t.Choose(50)), LastMs: 1600000000000 + uint64(t.Choose(1000)), LastSeq: uint64(t.Choose(5)), BlobFiller: byte(t.Choose(256))}
		if t.Choose(2) == 1 {
			// numbers above 2^32 use the 64-bit length form
			sp.LastMs = 1<<41 + uint64(t.Choose(1000))
		}
		ng := t.Choose(3)
		for g := 0; g < ng; g++ {
			grp := rc.StreamGroup{Name: []byte(fmt.Sprintf("grp%d", g)), Ms: sp.LastMs - 1, Seq: uint64(g), PEL: t.Choose(3)}
			nc := t.Choose(3)
			for k := 0; k < nc; k++ {
				grp.Consumers = append(grp.Consumers, rc.StreamConsumer{Name: []byte(fmt.Sprintf("c%d", k)), PEL: t.Choose(grp.PEL + 1)})
			}
			sp.Groups = append(sp.Groups, grp)
		}
		v.Stream = rc.EncodeStream(sp, t)
	}
	return v
}

// KeyName draws a key name; with hash tags now and then.
func KeyName(t *tape.Tape, i int) []byte {
	switch t.Choose(8) {
	case 0, 1, 2, 3:
		return []byte(fmt.Sprintf("key:%d", i))
	case 4:
		return []byte(fmt.Sprintf("{tag%d}:k%d", t.Choose(3), i))
	case 5:
		return append(t.Bytes(1+t.Choose(6), nil), []byte(fmt.Sprintf("#%d", i))...)
	case 6:
		// integer-looking key (the writer may store it in the 8/16/32-bit integer form), around the width boundaries and
		// negative as well; i keeps the names distinct
		// (ranges for i < 100 are pairwise disjoint, so names stay unique within a file)
		m := [][2]int{{1000, 1}, {-300, -1}, {-129, -1}, {-32768, 1}, {127, -1}, {128, 1}, {32767, -1}, {32768, 1}, {-2147483648, 1}, {2147483647, -1}, {-1, -1}, {50000, 1}}[t.Choose(12)]
		return []byte(strconv.Itoa(m[0] + m[1]*(i%100)))
	default:
		return append([]byte(fmt.Sprintf("k%d:", i)), t.Bytes(t.Choose(30), []byte("abc{} \r\n\x00"))...)
	}
}

// RDBOpts bounds an RDB file.
type RDBOpts struct {
	MaxKeys     int
	MaxDBs      int
	MaxElem     int // longest element
	Kinds       []rc.Kind
	NoMeta      bool // no aux / resizedb / moduleaux
	NoModuleAux bool
	NoLua       bool
	NoExpiry    bool
	FutureOnly  bool   // expiries are in the future relative to NowMs
	NowMs       uint64 // "current time" used to place expiries
	MinVersion  int
	NoIdleFreq  bool
	FloatOpcode bool // allow the module-aux FLOAT sub-opcode
	NoInfScore  bool // replace infinite scores by finite ones
}

// RDB draws a whole RDB file.
func RDB(t *tape.Tape, o RDBOpts) (file []byte, recs []rc.Record, version int, items []rc.Item) {
	if o.MaxKeys == 0 {
		o.MaxKeys = 12
	}
	if o.MaxDBs == 0 {
		o.MaxDBs = 4
	}
	if o.MaxElem == 0 {
		o.MaxElem = 20000
	}
	if len(o.Kinds) == 0 {
		o.Kinds = []rc.Kind{rc.KString, rc.KList, rc.KSet, rc.KZSet, rc.KHash, rc.KStream}
	}
	if o.NowMs == 0 {
		o.NowMs = 946684800000 // 2000-01-01, the bubble's epoch
	}
	version = []int{9, 9, 8, 7, 6, 5, 4, 3, 2, 1}[t.Choose(10)]
	if version < o.MinVersion {
		version = o.MinVersion
	}
	meta := !o.NoMeta && version >= 7
	if meta {
		n := t.Choose(4)
		for i := 0; i < n; i++ {
			items = append(items, auxItem(t))
		}
	}
	if version >= 9 && !o.NoMeta && !o.NoModuleAux && t.Choose(4) == 3 {
		items = append(items, moduleAux(t, o.FloatOpcode))
	}
	nkeys := t.Choose(o.MaxKeys + 1)
	ndbs := 1 + t.Choose(o.MaxDBs)
	dbOrder := t.Perm(ndbs)
	dbIDs := make([]uint64, ndbs)
	for i := range dbIDs {
		dbIDs[i] = uint64(dbOrder[i])
		if t.Choose(6) == 5 {
			dbIDs[i] = uint64(dbOrder[i]) + 7 // non-contiguous numbering
		}
	}
	used := map[string]bool{}
	curDB := -1
	for k := 0; k < nkeys; k++ {
		di := k * ndbs / (nkeys + 1 - 1 + 1)
		if t.Choose(5) == 4 {
			di = t.Choose(ndbs) // jump to another db (repeated SELECTDB of a db seen before)
		}
		if di != curDB || k == 0 {
			items = append(items, rc.Item{Kind: "selectdb", DB: dbIDs[di]})
			curDB = di
			if meta && t.Choose(2) == 1 {
				items = append(items, rc.Item{Kind: "resizedb", DBSize: uint64(t.Choose(100)), ExpSize: uint64(t.Choose(20))})
			}
		}
		kind := o.Kinds[t.Choose(len(o.Kinds))]
		if kind == rc.KStream && version < 9 {
			kind = rc.KString
		}
		name := KeyName(t, k)
		for used[fmt.Sprintf("%d/%s", di, name)] {
			name = append(name, '+')
		}
		used[fmt.Sprintf("%d/%s", di, name)] = true
		val := ValueOf(t, kind, o.MaxElem)
		if o.NoInfScore {
			for i := range val.ZSet {
				if math.IsInf(val.ZSet[i].S, 0) {
					val.ZSet[i].S = float64(i) + 0.5
				}
			}
		}
		legal := rc.LegalTypes(val, version)
		it := rc.Item{Kind: "key", Key: name, Val: val, Type: legal[t.Choose(len(legal))]}
		if !o.NoExpiry && t.Choose(3) == 2 {
			base := o.NowMs
			switch {
			case (o.FutureOnly || t.Choose(3) != 2) && t.Choose(8) == 7:
				// far future: seconds that no longer fit 31 bits (19 Jan 2038), the year 2100, the last 32-bit second
				it.ExpireMs = 1000 * []uint64{1 << 31, 1<<31 - 1, 4102444800, 1<<32 - 1, 1<<31 + 12345}[t.Choose(5)]
			case o.FutureOnly || t.Choose(3) != 2:
				it.ExpireMs = base + 1000*uint64(4*3600+t.Choose(100000)) // beyond any simulated run (MaxSimTime <= 3 h): a live key never expires under the oracle's feet
			default:
				it.ExpireMs = base - 1000*uint64(1+t.Choose(100000)) // already expired
			}
			if version < 3 || t.Choose(3) == 2 {
				it.ExpireS = true
				it.ExpireMs -= it.ExpireMs % 1000
			} else {
				it.ExpireMs += uint64(t.Choose(1000))
			}
		}
		if version >= 9 && !o.NoIdleFreq {
			switch t.Choose(5) {
			case 3:
				it.HasIdle, it.Idle = true, uint64(t.Choose(100000))
			case 4:
				it.HasFreq, it.Freq = true, byte(t.Choose(256))
			}
		}
		items = append(items, it)
		if meta && t.Choose(12) == 11 {
			items = append(items, auxItem(t))
		}
		if version >= 9 && !o.NoMeta && !o.NoModuleAux && t.Choose(16) == 15 {
			items = append(items, moduleAux(t, o.FloatOpcode))
		}
	}
	if meta && !o.NoLua {
		n := t.Choose(3)
		for i := 0; i < n; i++ {
			body := []byte(fmt.Sprintf("return redis.call('get', KEYS[1]) -- script %d %s", i, t.Bytes(t.Choose(8), []byte("xyz"))))
			items = append(items, rc.Item{Kind: "aux", AuxKey: []byte("lua"), AuxVal: body})
		}
	}
	file, recs = rc.WriteRDB(version, items, t, true)
	return
}

func auxItem(t *tape.Tape) rc.Item {
	keys := []string{"redis-ver", "redis-bits", "ctime", "used-mem", "aof-preamble", "repl-stream-db", "repl-id", "repl-offset", "luax", "lu"}
	k := keys[t.Choose(len(keys))]
	var v []byte
	switch t.Choose(3) {
	case 0:
		v = []byte("5.0.7")
	case 1:
		v = []byte(strconv.Itoa(t.Choose(1 << 30)))
	default:
		v = t.Bytes(t.Choose(50), nil)
	}
	return rc.Item{Kind: "aux", AuxKey: []byte(k), AuxVal: v}
}

func moduleAux(t *tape.Tape, allowFloat bool) rc.Item {
	it := rc.Item{Kind: "moduleaux", ModuleID: 1<<63 | uint64(t.Choose(1<<20))<<10 | 1}
	// when_opcode / when as Redis 5 writes them
	it.ModOps = append(it.ModOps, rc.ModOp{Op: 2, U: uint64(1 << uint(t.Choose(2)))})
	n := t.Choose(5)
	for i := 0; i < n; i++ {
		k := 5
		if allowFloat {
			k = 6
		}
		switch t.Choose(k) {
		case 0:
			it.ModOps = append(it.ModOps, rc.ModOp{Op: 2, U: uint64(t.Choose(1 << 20))})
		case 1:
			it.ModOps = append(it.ModOps, rc.ModOp{Op: 1, U: 1<<40 + uint64(t.Choose(100))}) // 64-bit form
		case 2:
			it.ModOps = append(it.ModOps, rc.ModOp{Op: 5, S: Elem(t, 300)})
		case 3:
			it.ModOps = append(it.ModOps, rc.ModOp{Op: 4, F64: math.Float64bits(Score(t))})
		case 4:
			it.ModOps = append(it.ModOps, rc.ModOp{Op: 2, U: uint64(t.Choose(60))})
		case 5:
			it.ModOps = append(it.ModOps, rc.ModOp{Op: 3, F32: math.Float32bits(float32(Score(t)))})
		}
	}
	return it
}
