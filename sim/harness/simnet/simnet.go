// Package simnet is the simulated TCP transport: in-memory full-duplex
// connections between tasks of one simrt simulation, with tape-driven
// segmentation, latency, stalls, resets, refused dials and short reads.
// Order is preserved and nothing is duplicated (both streams are TCP).
//
// All state is touched only by the task holding the baton; delivery is
// reader-driven (a parked reader wakes at the due time of the next in-flight
// segment), so there are no timer callbacks and no locks.
package simnet

import (
	"errors"
	"fmt"
	"io"
	"net"
	"os"
	"time"

	"github.com/alibaba/RedisShake/pkg/simrt"
	"github.com/alibaba/RedisShake/pkg/simrt/tape"
)

// Profile controls one direction of one connection.
type Profile struct {
	Split      int // per mille: probability that a write is cut into segments
	Latency    int // per mille: probability that a segment gets a non-zero delay
	MaxDelayMs int
	ShortRead  int // per mille: a Read returns fewer bytes than available
	Window     int // bytes in flight + unread before the writer parks (0 = unlimited)
}

type segment struct {
	data []byte
	at   time.Duration
}

type stream struct {
	buf      []byte
	inflight []segment
	lastAt   time.Duration
	eof      bool // writer closed gracefully (after everything queued)
	reset    bool // connection torn down
	finAck   bool // the reader of this stream has closed gracefully: the next write is accepted and dropped, later ones fail
	rq, wq   simrt.WaitQ
	prof     Profile
	total    int64 // bytes ever written
	cutAt    int64 // reset when total reaches this (-1: never)
	cutLose  int   // how many of the bytes in flight at the cut are lost (tail), -1 = tape decides
}

// Event is one operation on a recorded endpoint.
type Event struct {
	Seq      int
	T        time.Duration
	Kind     string // read | write | close | reset
	N        int
	Data     []byte // writes only
	ReadSum  int64  // bytes returned by Read so far (after this event)
	WriteSum int64
}

// Conn is one endpoint. It implements net.Conn.
type Conn struct {
	CutGraceful bool // CutAfterTotal closes with FIN (finClose) instead of a reset
	CutFired    bool // an injected CutAfterTotal reset has happened on this endpoint
	n           *Net
	ID          int
	Name        string
	in, out     *stream
	peer        *Conn
	closed      bool
	owner       *simrt.Proc
	rdl         time.Time
	wdl         time.Time
	local       net.Addr
	remote      net.Addr
	Record      bool
	Events      []Event
	ReadSum     int64
	WriteSum    int64
	Sent        []byte                  // everything ever written on this endpoint (if Record)
	OnWrite     func(c *Conn, p []byte) // observer, called before the bytes are queued
}

type addr string

func (a addr) Network() string { return "tcp" }
func (a addr) String() string  { return string(a) }

// Listener is a simulated server socket.
type Listener struct {
	Addr    string
	Proc    *simrt.Proc
	Handler func(c *Conn)
	// Refuse, if set, is asked on every dial; true = connection refused.
	Refuse func(attempt int) bool
	dials  int
	// Profiles for accepted connections (server->client, client->server)
	ToClient, ToServer Profile
	Closed             bool
	// RecordClient: record every operation of the dialling (client) endpoint
	RecordClient bool
	// OnAccept, if set, is called with the two endpoints right after the connection is made
	OnAccept func(client, server *Conn)
}

// Net is the simulated network of one run.
type Net struct {
	S         *simrt.Sim
	T         *tape.Tape
	listeners map[string]*Listener
	Conns     []*Conn
	seq       int
	// DefaultProfile is used when a listener does not set one.
	DefaultProfile Profile
}

func New(s *simrt.Sim) *Net {
	n := &Net{S: s, T: s.T, listeners: map[string]*Listener{}}
	s.SetDialer(n.Dial)
	return n
}

func (n *Net) nextSeq() int { n.seq++; return n.seq }

// Listen registers a server. handler runs as a new task of proc for every accepted connection.
func (n *Net) Listen(address string, proc *simrt.Proc, handler func(c *Conn)) *Listener {
	l := &Listener{Addr: address, Proc: proc, Handler: handler, ToClient: n.DefaultProfile, ToServer: n.DefaultProfile}
	n.listeners[address] = l
	return l
}

var ErrRefused = &net.OpError{Op: "dial", Net: "tcp", Err: errors.New("connect: connection refused")}

// Dial connects the calling task's process to the listener at address.
func (n *Net) Dial(network, address string) (net.Conn, error) {
	c, err := n.DialConn(address)
	if err != nil {
		return nil, err
	}
	return c, nil
}

func (n *Net) DialConn(address string) (*Conn, error) {
	t := n.S.Self()
	n.S.Yield("net.dial")
	l := n.listeners[address]
	if l == nil || l.Closed || (l.Proc != nil && !n.S.Alive(l.Proc)) {
		n.S.Fault("dial_refused")
		return nil, ErrRefused
	}
	l.dials++
	if l.Refuse != nil && l.Refuse(l.dials) {
		n.S.Fault("dial_refused")
		return nil, ErrRefused
	}
	id := len(n.Conns)
	a := &stream{prof: l.ToClient, cutAt: -1, cutLose: -1} // server -> client
	b := &stream{prof: l.ToServer, cutAt: -1, cutLose: -1} // client -> server
	cl := &Conn{n: n, ID: id, Name: fmt.Sprintf("c%d:client->%s", id, address), in: a, out: b, local: addr(fmt.Sprintf("10.9.9.9:%d", 40000+id)), remote: addr(address)}
	sv := &Conn{n: n, ID: id + 1, Name: fmt.Sprintf("c%d:server@%s", id+1, address), in: b, out: a, local: addr(address), remote: cl.local}
	cl.peer, sv.peer = sv, cl
	cl.Record = l.RecordClient
	if l.OnAccept != nil {
		l.OnAccept(cl, sv)
	}
	if t != nil {
		cl.owner = t.Proc
		t.Proc.OnDeath(func() { cl.abort() })
	}
	sv.owner = l.Proc
	n.Conns = append(n.Conns, cl, sv)
	h := l.Handler
	if l.Proc != nil {
		l.Proc.OnDeath(func() { sv.abort() })
		n.S.GoProc(l.Proc, "accept:"+address, func() { h(sv) })
	}
	return cl, nil
}

// ---- net.Conn ----------------------------------------------------------------

type timeoutError struct{ op string }

func (e *timeoutError) Error() string   { return e.op + ": i/o timeout" }
func (e *timeoutError) Timeout() bool   { return true }
func (e *timeoutError) Temporary() bool { return true }

var errClosed = errors.New("use of closed network connection")
var errReset = &net.OpError{Op: "read", Net: "tcp", Err: os.NewSyscallError("read", errors.New("connection reset by peer"))}
var errPipe = &net.OpError{Op: "write", Net: "tcp", Err: os.NewSyscallError("write", errors.New("broken pipe"))}

func (c *Conn) now() time.Duration { return c.n.S.Now() }

func (c *Conn) event(kind string, nbytes int, data []byte) {
	if !c.Record {
		return
	}
	e := Event{Seq: c.n.nextSeq(), T: c.now(), Kind: kind, N: nbytes, ReadSum: c.ReadSum, WriteSum: c.WriteSum}
	if data != nil {
		e.Data = append([]byte(nil), data...)
	}
	c.Events = append(c.Events, e)
}

func (s *stream) deliverDue(now time.Duration) {
	k := 0
	for k < len(s.inflight) && s.inflight[k].at <= now {
		s.buf = append(s.buf, s.inflight[k].data...)
		k++
	}
	if k > 0 {
		s.inflight = s.inflight[k:]
	}
}

func (s *stream) queued() int {
	n := len(s.buf)
	for _, sg := range s.inflight {
		n += len(sg.data)
	}
	return n
}

func (c *Conn) Read(p []byte) (int, error) {
	s := c.in
	sim := c.n.S
	sim.Yield("net.read")
	for {
		if c.closed {
			return 0, &net.OpError{Op: "read", Net: "tcp", Err: errClosed}
		}
		s.deliverDue(c.now())
		if len(s.buf) > 0 {
			if len(p) == 0 {
				return 0, nil
			}
			n := len(s.buf)
			if n > len(p) {
				n = len(p)
			}
			if n > 1 && s.prof.ShortRead > 0 && c.n.T.Chance(s.prof.ShortRead) {
				n = 1 + c.n.T.Choose(n-1)
				sim.Fault("short_read")
			}
			copy(p, s.buf[:n])
			s.buf = s.buf[n:]
			if len(s.buf) == 0 {
				s.buf = nil
			}
			c.ReadSum += int64(n)
			c.event("read", n, nil)
			sim.WakeAll(&s.wq)
			return n, nil
		}
		if len(s.inflight) == 0 {
			// bytes queued before a reset / close are still delivered first
			if s.reset {
				return 0, errReset
			}
			if s.eof {
				return 0, io.EOF
			}
		}
		var wait time.Duration
		if len(s.inflight) > 0 {
			wait = s.inflight[0].at - c.now()
			if wait <= 0 {
				wait = 1
			}
		}
		if !c.rdl.IsZero() {
			left := time.Until(c.rdl)
			if left <= 0 {
				return 0, &net.OpError{Op: "read", Net: "tcp", Err: &timeoutError{"read"}}
			}
			if wait == 0 || left < wait {
				wait = left
			}
		}
		sim.ParkOn(&s.rq, "net.read:"+c.Name, wait)
	}
}

func (c *Conn) Write(p []byte) (int, error) {
	s := c.out
	sim := c.n.S
	sim.Yield("net.write")
	if c.closed {
		return 0, &net.OpError{Op: "write", Net: "tcp", Err: errClosed}
	}
	if s.reset || c.in.reset {
		return 0, errPipe
	}
	if s.eof {
		return 0, errPipe
	}
	if len(p) == 0 {
		return 0, nil
	}
	if s.finAck {
		// the peer has closed: the local stack still accepts this write, the peer answers it with a reset
		s.finAck = false
		s.reset = true
		c.WriteSum += int64(len(p))
		c.event("write", len(p), p)
		return len(p), nil
	}
	if c.OnWrite != nil {
		c.OnWrite(c, p)
	}
	// back-pressure
	for s.prof.Window > 0 && s.queued() >= s.prof.Window {
		if !c.wdl.IsZero() && time.Until(c.wdl) <= 0 {
			return 0, &net.OpError{Op: "write", Net: "tcp", Err: &timeoutError{"write"}}
		}
		var wait time.Duration
		if !c.wdl.IsZero() {
			wait = time.Until(c.wdl)
		}
		sim.Probe("net_backpressure")
		sim.ParkOn(&s.wq, "net.write:"+c.Name, wait)
		if c.closed {
			return 0, &net.OpError{Op: "write", Net: "tcp", Err: errClosed}
		}
		if s.reset || c.in.reset {
			return 0, errPipe
		}
	}
	data := append([]byte(nil), p...)
	c.WriteSum += int64(len(p))
	if c.Record {
		c.Sent = append(c.Sent, p...)
	}
	c.event("write", len(p), p)
	// injected cut: the connection dies when the total reaches cutAt
	if s.cutAt >= 0 && s.total+int64(len(data)) > s.cutAt {
		keep := int(s.cutAt - s.total)
		if keep < 0 {
			keep = 0
		}
		s.total += int64(len(data))
		if keep > 0 {
			c.enqueue(s, data[:keep])
		}
		c.CutFired = true
		if c.CutGraceful {
			sim.Fault("conn_fin")
			c.finClose()
			return len(p), nil
		}
		sim.Fault("conn_cut")
		c.teardown()
		return len(p), nil // the local stack accepted the bytes; the failure shows on the next operation
	}
	s.total += int64(len(data))
	c.enqueue(s, data)
	return len(p), nil
}

// enqueue splits data into segments and schedules their delivery.
func (c *Conn) enqueue(s *stream, data []byte) {
	T := c.n.T
	sim := c.n.S
	var cuts []int
	if len(data) > 1 && s.prof.Split > 0 && T.Chance(s.prof.Split) {
		k := 1 + T.Choose(3)
		for i := 0; i < k; i++ {
			var at int
			switch T.Choose(4) {
			case 0:
				at = 1 + T.Choose(minInt(8, len(data)-1)) // near the head
			case 1:
				at = len(data) - 1 - T.Choose(minInt(8, len(data)-1)) // near the tail
			default:
				at = 1 + T.Choose(len(data)-1)
			}
			if at > 0 && at < len(data) {
				cuts = append(cuts, at)
			}
		}
		sortInts(cuts)
		sim.Fault("segment_split")
	}
	prev := 0
	cuts = append(cuts, len(data))
	for _, at := range cuts {
		if at <= prev {
			continue
		}
		seg := data[prev:at]
		prev = at
		delay := time.Duration(0)
		if s.prof.Latency > 0 && T.Chance(s.prof.Latency) {
			maxd := s.prof.MaxDelayMs
			if maxd <= 0 {
				maxd = 50
			}
			delay = time.Duration(1+T.Choose(maxd)) * time.Millisecond
			sim.Fault("latency")
		}
		at2 := c.now() + delay
		if at2 < s.lastAt {
			at2 = s.lastAt // TCP: never reordered
		}
		s.lastAt = at2
		if at2 <= c.now() && len(s.inflight) == 0 {
			s.buf = append(s.buf, seg...)
		} else {
			s.inflight = append(s.inflight, segment{seg, at2})
		}
	}
	sim.WakeAll(&s.rq)
}

func minInt(a, b int) int {
	if a < b {
		return a
	}
	return b
}

func sortInts(a []int) {
	for i := 1; i < len(a); i++ {
		for j := i; j > 0 && a[j] < a[j-1]; j-- {
			a[j], a[j-1] = a[j-1], a[j]
		}
	}
}

// Close closes this endpoint gracefully: the peer reads EOF after draining.
func (c *Conn) Close() error {
	if c.closed {
		return &net.OpError{Op: "close", Net: "tcp", Err: errClosed}
	}
	c.closed = true
	c.event("close", 0, nil)
	c.out.eof = true
	// unread inbound data is discarded; the peer's further writes fail
	c.in.reset = true
	c.in.buf, c.in.inflight = nil, nil
	c.n.S.WakeAll(&c.out.rq)
	c.n.S.WakeAll(&c.in.wq)
	c.n.S.WakeAll(&c.in.rq)
	return nil
}

// finClose is an orderly close by this endpoint (FIN): the peer drains what was queued and then reads EOF; the peer's
// next write is still accepted by its local stack (and lost), every later one fails — what a TCP peer sees after close().
func (c *Conn) finClose() {
	c.closed = true
	c.event("close", 0, nil)
	c.out.eof = true
	c.in.finAck = true
	c.in.buf, c.in.inflight = nil, nil
	c.n.S.WakeAll(&c.out.rq)
	c.n.S.WakeAll(&c.in.wq)
	c.n.S.WakeAll(&c.in.rq)
}

// teardown resets the connection in both directions (bytes already queued towards the peer
// of the cut direction were placed by the caller; everything else in flight is lost).
func (c *Conn) teardown() {
	for _, s := range []*stream{c.in, c.out} {
		s.reset = true
		c.n.S.WakeAll(&s.rq)
		c.n.S.WakeAll(&s.wq)
	}
	// data in flight towards c is lost; data towards the peer that was queued before the cut is still delivered
	c.in.buf, c.in.inflight = nil, nil
	c.event("reset", 0, nil)
}

// abort is what happens to a connection when its owning process dies.
func (c *Conn) abort() {
	if c.closed {
		return
	}
	c.closed = true
	if c.n.T.Chance(500) {
		// hard: a tape-chosen tail of the bytes still in flight is lost
		s := c.out
		if q := len(s.inflight); q > 0 {
			keep := c.n.T.Choose(q + 1)
			s.inflight = s.inflight[:keep]
			c.n.S.Fault("crash_lost_inflight")
		}
		c.out.reset = len(c.out.inflight) == 0 && len(c.out.buf) == 0
	}
	c.out.eof = true
	c.in.reset = true
	c.in.buf, c.in.inflight = nil, nil
	c.n.S.WakeAll(&c.out.rq)
	c.n.S.WakeAll(&c.in.wq)
	c.n.S.WakeAll(&c.in.rq)
}

// Reset tears the connection down from the harness (fault injection).
func (c *Conn) Reset() {
	c.n.S.Fault("conn_reset")
	c.teardown()
}

// CutAfterTotal arranges for the connection to be reset once this endpoint
// has written total bytes in all (bytes beyond that point are lost).
func (c *Conn) CutAfterTotal(total int64) { c.out.cutAt = total }

// Stall delays everything currently in flight and everything written during
// the next d towards this endpoint's peer.
func (c *Conn) Stall(d time.Duration) {
	s := c.out
	until := c.now() + d
	for i := range s.inflight {
		if s.inflight[i].at < until {
			s.inflight[i].at = until
		}
	}
	if len(s.buf) > 0 {
		// undeliver what the peer has not read yet
		s.inflight = append([]segment{{append([]byte(nil), s.buf...), until}}, s.inflight...)
		s.buf = nil
	}
	if s.lastAt < until {
		s.lastAt = until
	}
	c.n.S.Fault("stall")
}

func (c *Conn) LocalAddr() net.Addr  { return c.local }
func (c *Conn) RemoteAddr() net.Addr { return c.remote }
func (c *Conn) SetDeadline(t time.Time) error {
	c.rdl, c.wdl = t, t
	return nil
}
func (c *Conn) SetReadDeadline(t time.Time) error  { c.rdl = t; return nil }
func (c *Conn) SetWriteDeadline(t time.Time) error { c.wdl = t; return nil }

// Peer returns the other endpoint.
func (c *Conn) Peer() *Conn { return c.peer }

// IsClosed reports whether this endpoint was closed locally.
func (c *Conn) IsClosed() bool { return c.closed }

// Broken reports whether the connection was reset.
func (c *Conn) Broken() bool { return c.in.reset || c.out.reset }

// SetProfiles overrides the per-direction profiles of an established connection (harness side).
func (c *Conn) SetProfiles(out, in Profile) { c.out.prof, c.in.prof = out, in }

// Unread reports bytes queued towards this endpoint that it has not read yet.
func (c *Conn) Unread() int { return c.in.queued() }
