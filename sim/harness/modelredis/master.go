package modelredis

import (
	"fmt"
	"strconv"
	"strings"
	"time"

	"github.com/alibaba/RedisShake/pkg/simrt"

	"verifsim/simnet"
)

// Master is the replication-source personality: it answers SYNC / PSYNC with
// (+FULLRESYNC | +CONTINUE), optional keep-alive newlines, $n, the RDB, and
// then serves the command stream from an in-memory backlog according to a
// pacing script. Replication offsets follow Redis: the stream byte with
// 0-based index i has offset O0+1+i; "PSYNC id x" asks for the byte with offset x.
type Master struct {
	RejectReconnect string // if set, every PSYNC after the first link is answered with this error text
	Rejected        int
	*Server
	RunID   string
	O0      int64
	RDB     []byte
	Stream  []byte
	Release []Release // pacing: Stream[:Upto] is available from time At (sorted)
	// reply framing
	PreNL    int // '\n' before the +FULLRESYNC / +CONTINUE line
	MidNL    int // '\n' between that line and "$n"
	CaseMode int // 0 upper, 1 lower, 2 mixed
	// behaviour
	ForceFull     bool // answer every PSYNC with a full resync
	Links         []*Link
	wake          simrt.WaitQ
	Stopped       bool
	TrailAfterRDB []byte // extra bytes sent right after the RDB in SYNC (dump) mode, e.g. the first commands
}

// Release makes Stream[:Upto] available at simulated time At.
type Release struct {
	Upto int
	At   time.Duration
}

// Ack is one REPLCONF ACK received on a link.
type Ack struct {
	Val int64
	T   time.Duration
}

// Link is one replication connection.
type Link struct {
	ID        int
	Conn      *simnet.Conn
	Kind      string // full | continue | sync
	ReqRunID  string
	ReqOffset int64
	StartOff  int64 // offset of the first stream byte served on this link
	Sent      int64 // stream bytes written on this link
	Header    int64 // bytes written before the stream (reply, $n, RDB)
	Base      int64 // bytes written on the connection before the head (replies to AUTH / REPLCONF)
	Acks      []Ack
	Dead      bool
	OpenedAt  time.Duration
}

func NewMaster(s *simrt.Sim, n *simnet.Net, name, address string) *Master {
	m := &Master{Server: NewServer(s, n, name, address), RunID: strings.Repeat("3f", 20)}
	m.Server.Special = m.special
	m.Server.L.RecordClient = true
	m.Server.InfoReplication = func() string {
		var sb strings.Builder
		fmt.Fprintf(&sb, "# Replication\r\nrole:master\r\nconnected_slaves:%d\r\n", len(m.Links))
		for i, l := range m.Links {
			off := int64(0)
			if len(l.Acks) > 0 {
				off = l.Acks[len(l.Acks)-1].Val
			}
			fmt.Fprintf(&sb, "slave%d:ip=10.9.9.9,port=%d,state=online,offset=%d,lag=0\r\n", i, 9320, off)
		}
		fmt.Fprintf(&sb, "master_repl_offset:%d\r\n", m.O0+int64(m.available()))
		return sb.String()
	}
	return m
}

// available returns how many stream bytes have been released by now.
func (m *Master) available() int {
	now := m.S.Now()
	n := 0
	for _, r := range m.Release {
		if r.At <= now && r.Upto > n {
			n = r.Upto
		}
	}
	if len(m.Release) == 0 {
		n = len(m.Stream)
	}
	if n > len(m.Stream) {
		n = len(m.Stream)
	}
	return n
}

func (m *Master) nextRelease() (time.Duration, bool) {
	now := m.S.Now()
	best := time.Duration(-1)
	for _, r := range m.Release {
		if r.At > now && (best < 0 || r.At < best) {
			best = r.At
		}
	}
	return best, best >= 0
}

// Append extends the stream (harness side, e.g. for phases decided at run time) and releases it now.
func (m *Master) Append(b []byte) {
	m.Stream = append(m.Stream, b...)
	m.Release = append(m.Release, Release{Upto: len(m.Stream), At: m.S.Now()})
	m.S.WakeAll(&m.wake)
}

// Stop ends all links gracefully (harness side).
func (m *Master) Stop() {
	m.Stopped = true
	m.S.WakeAll(&m.wake)
}

func (m *Master) word(w string) string {
	switch m.CaseMode {
	case 1:
		return strings.ToLower(w)
	case 2:
		b := []byte(strings.ToLower(w))
		for i := 0; i < len(b); i += 2 {
			if b[i] >= 'a' && b[i] <= 'z' {
				b[i] -= 32
			}
		}
		return string(b)
	}
	return w
}

func (m *Master) special(sv *Server, cn *ConnState, args [][]byte) bool {
	name := strings.ToLower(string(args[0]))
	if name != "psync" && name != "sync" {
		return false
	}
	if !cn.Authed {
		cn.C.Write(errReply("NOAUTH Authentication required."))
		return true
	}
	if m.RejectReconnect != "" && len(m.Links) > 0 && name == "psync" {
		// a source that takes the connection back but refuses to continue (it lost its own master link, is loading...)
		cn.C.Write(errReply(m.RejectReconnect))
		m.Rejected++
		return true
	}
	l := &Link{ID: len(m.Links), Conn: cn.C, OpenedAt: m.S.Now()}
	m.Links = append(m.Links, l)
	var head []byte
	pos := 0 // index into Stream of the next byte to send
	if name == "sync" {
		l.Kind = "sync"
		for i := 0; i < m.PreNL+m.MidNL; i++ {
			head = append(head, '\n')
		}
		head = append(head, []byte("$"+strconv.Itoa(len(m.RDB))+"\r\n")...)
		head = append(head, m.RDB...)
		l.StartOff = m.O0 + 1
	} else {
		if len(args) >= 3 {
			l.ReqRunID = string(args[1])
			l.ReqOffset, _ = strconv.ParseInt(string(args[2]), 10, 64)
		}
		canContinue := !m.ForceFull && l.ReqRunID == m.RunID && l.ReqOffset >= m.O0+1 && l.ReqOffset <= m.O0+1+int64(len(m.Stream))
		for i := 0; i < m.PreNL; i++ {
			head = append(head, '\n')
		}
		if canContinue {
			l.Kind = "continue"
			head = append(head, []byte("+"+m.word("CONTINUE")+"\r\n")...)
			pos = int(l.ReqOffset - m.O0 - 1)
			l.StartOff = l.ReqOffset
		} else {
			l.Kind = "full"
			head = append(head, []byte(fmt.Sprintf("+%s %s %d\r\n", m.word("FULLRESYNC"), m.RunID, m.O0))...)
			for i := 0; i < m.MidNL; i++ {
				head = append(head, '\n')
			}
			head = append(head, []byte("$"+strconv.Itoa(len(m.RDB))+"\r\n")...)
			head = append(head, m.RDB...)
			l.StartOff = m.O0 + 1
		}
	}
	// reader task: REPLCONF ACK <offset> arrives on the same connection
	m.S.GoProc(m.Proc, "master-ack-reader", func() {
		for {
			a, err := ReadCommand(cn.BR)
			if err != nil {
				l.Dead = true
				m.S.WakeAll(&m.wake)
				return
			}
			if len(a) == 3 && strings.EqualFold(string(a[0]), "replconf") && strings.EqualFold(string(a[1]), "ack") {
				v, _ := strconv.ParseInt(string(a[2]), 10, 64)
				l.Acks = append(l.Acks, Ack{Val: v, T: m.S.Now()})
			}
		}
	})
	// one write carries header + RDB + whatever stream bytes are available (the transport splits it)
	if l.Kind == "sync" && len(m.TrailAfterRDB) > 0 {
		head = append(head, m.TrailAfterRDB...)
	}
	first := true
	for !l.Dead && !m.Stopped {
		avail := m.available()
		if pos < avail || first {
			chunk := m.Stream[pos:max(pos, avail)]
			if len(chunk) > 1<<20 {
				chunk = chunk[:1<<20]
			}
			out := chunk
			if first {
				out = append(append([]byte(nil), head...), chunk...)
				l.Base = cn.C.WriteSum // handshake replies written on this connection before the head
				l.Header = int64(len(head))
				first = false
			}
			if len(out) > 0 {
				if _, err := cn.C.Write(out); err != nil {
					break
				}
			}
			pos += len(chunk)
			l.Sent += int64(len(chunk))
			continue
		}
		if cn.C.Broken() || cn.C.IsClosed() {
			break
		}
		wait := time.Duration(0)
		if at, ok := m.nextRelease(); ok {
			wait = at - m.S.Now()
		} else {
			wait = time.Hour
		}
		m.S.ParkOn(&m.wake, "master.pace", wait)
	}
	l.Dead = true
	cn.Closed = true
	return true
}

func max(a, b int) int {
	if a > b {
		return a
	}
	return b
}
