// Package modelredis is a small reference model of a Redis 5.0 server, written
// from the documentation, used as simulated peer (target, replication source,
// scan source, cluster node) and as oracle. It talks RESP over simnet.
package modelredis

import (
	"bufio"
	"bytes"
	"crypto/sha1"
	"encoding/hex"
	"fmt"
	"io"
	"math"
	"sort"
	"strconv"
	"strings"
	"time"

	"github.com/alibaba/RedisShake/pkg/simrt"

	rc "verifsim/refcodec"
	"verifsim/simnet"
)

// Entry is one key of the keyspace.
type Entry struct {
	Val      *rc.Value
	ExpireAt int64  // absolute ms (simulated clock), 0 = no expiry
	Dump     []byte // original DUMP payload, when the key was planted with one
	Idle     int64
	Freq     int64
	SetAtSeq int            // sequence number of the command that created/last replaced it
	idx      map[string]int // member/field -> position (built lazily, dropped on removal)
}

// find returns the position of a hash field / set member / zset member, or -1.
func (e *Entry) find(m []byte) int {
	if e.idx == nil {
		e.idx = map[string]int{}
		switch e.Val.Kind {
		case rc.KHash:
			for i, p := range e.Val.Hash {
				e.idx[string(p.F)] = i
			}
		case rc.KSet:
			for i, p := range e.Val.Set {
				e.idx[string(p)] = i
			}
		case rc.KZSet:
			for i, p := range e.Val.ZSet {
				e.idx[string(p.M)] = i
			}
		}
	}
	if i, ok := e.idx[string(m)]; ok {
		return i
	}
	return -1
}

func (e *Entry) added(m []byte, pos int) {
	if e.idx != nil {
		e.idx[string(m)] = pos
	}
}

// Applied is one command executed by the server (after MULTI queuing).
type Applied struct {
	Seq     int
	T       time.Duration
	Conn    int
	NetID   int // id of the server-side simnet endpoint
	DB      int
	Args    [][]byte
	InExec  bool
	ExecID  int // number of the EXEC that ran it (0 = outside a transaction)
	IsError bool
	Reply   string
}

func (a Applied) Name() string { return strings.ToLower(string(a.Args[0])) }

func (a Applied) String() string {
	var sb strings.Builder
	fmt.Fprintf(&sb, "c%d db%d", a.Conn, a.DB)
	for _, x := range a.Args {
		if len(x) > 24 {
			fmt.Fprintf(&sb, " %q..(%d)", x[:24], len(x))
		} else {
			fmt.Fprintf(&sb, " %q", x)
		}
	}
	return sb.String()
}

// Server is the model.
type Server struct {
	Name     string
	Addr     string
	S        *simrt.Sim
	Net      *simnet.Net
	Proc     *simrt.Proc
	L        *simnet.Listener
	DBs      map[int]map[string]*Entry
	NumDBs   int
	Password string
	Version  string // redis_version reported by INFO
	// RDBVersion is the highest DUMP payload version RESTORE accepts.
	RDBVersion int
	// KnownType reports whether RESTORE understands a value type code.
	KnownType func(t int) bool
	// RestoreReplace / RestoreIdleFreq: does RESTORE accept REPLACE (>= 3.0) and IDLETIME/FREQ (>= 5.0)?
	RestoreReplace  bool
	RestoreIdleFreq bool
	// Lenient: unknown commands are logged and answered +OK instead of an error.
	Lenient bool
	Applied []Applied
	Scripts []string
	seq     int
	connSeq int
	execSeq int
	curExec int
	// Fail, if set, may return an error reply (without "-", e.g. "OOM command not allowed") to send instead of executing.
	Fail func(connID, db int, args [][]byte) string
	// OnConn, if set, takes over a connection entirely (used by the replication source).
	Special func(s *Server, cn *ConnState, args [][]byte) (handled bool)
	// ReplyDelay: simulated processing delay per command (ms), tape independent
	// ScanPage, if set, decides how many keys the next SCAN page carries (0 = an empty page); default COUNT
	ScanPage func(count int) int
	// ScanOrder, if set, permutes the snapshot a scan iterates over
	ScanOrder func(n int) []int
	// Before, if set, runs before every command is executed (mutators, probes)
	Before    func(cn *ConnState, args [][]byte)
	scans     map[int64]*scanState
	cursorSeq int64
	// LogOnly: commands for which the model only records the call and answers +OK
	LogOnly         func(name string) bool
	AuthUnknown     bool   // AUTH is answered like an unknown command (arguments echoed in the error text)
	Role            string // master | slave, for INFO replication
	InfoReplication func() string
	Conns           []*ConnState
}

// ConnState is the per-connection state.
type scanState struct {
	db    int
	order []string
	pos   int
}

type ConnState struct {
	ID     int
	C      *simnet.Conn
	BR     *bufio.Reader
	DB     int
	Authed bool
	Multi  bool
	Queue  [][][]byte
	Dirty  bool
	Closed bool
}

func NewServer(s *simrt.Sim, n *simnet.Net, name, address string) *Server {
	sv := &Server{Name: name, Addr: address, S: s, Net: n, DBs: map[int]map[string]*Entry{}, NumDBs: 16,
		Version: "5.0.7", RDBVersion: 9, RestoreReplace: true, RestoreIdleFreq: true, Role: "master"}
	sv.KnownType = func(t int) bool { return (t >= 0 && t <= 5) || (t >= 9 && t <= 15) }
	sv.Proc = s.NewProc(name)
	sv.L = n.Listen(address, sv.Proc, sv.serve)
	return sv
}

func nowMs() int64 { return time.Now().UnixNano() / int64(time.Millisecond) }

func (sv *Server) db(i int) map[string]*Entry {
	d := sv.DBs[i]
	if d == nil {
		d = map[string]*Entry{}
		sv.DBs[i] = d
	}
	return d
}

// Get returns the live entry (expired keys are removed lazily).
func (sv *Server) Get(db int, key string) *Entry {
	d := sv.db(db)
	e := d[key]
	if e != nil && e.ExpireAt != 0 && e.ExpireAt <= nowMs() {
		delete(d, key)
		return nil
	}
	return e
}

// Plant stores a key directly (harness side).
func (sv *Server) Plant(db int, key string, e *Entry) { sv.db(db)[key] = e }

// Keys returns the live keys of a db, sorted.
func (sv *Server) Keys(db int) []string {
	var ks []string
	for k := range sv.db(db) {
		if sv.Get(db, k) != nil {
			ks = append(ks, k)
		}
	}
	sort.Strings(ks)
	return ks
}

// DBList returns the numbers of the non-empty dbs, sorted.
func (sv *Server) DBList() []int {
	var out []int
	for i := range sv.DBs {
		if len(sv.Keys(i)) > 0 {
			out = append(out, i)
		}
	}
	sort.Ints(out)
	return out
}

// ---- RESP -------------------------------------------------------------------------

func bulk(b []byte) []byte {
	if b == nil {
		return []byte("$-1\r\n")
	}
	out := append([]byte("$"+strconv.Itoa(len(b))+"\r\n"), b...)
	return append(out, '\r', '\n')
}
func status(s string) []byte { return []byte("+" + s + "\r\n") }
func errReply(s string) []byte {
	return []byte("-" + s + "\r\n")
}
func integer(n int64) []byte { return []byte(":" + strconv.FormatInt(n, 10) + "\r\n") }
func array(items ...[]byte) []byte {
	out := []byte("*" + strconv.Itoa(len(items)) + "\r\n")
	for _, it := range items {
		out = append(out, it...)
	}
	return out
}

// ReadCommand reads one client command (RESP array of bulk strings, or an inline line).
func ReadCommand(br *bufio.Reader) ([][]byte, error) {
	for {
		c, err := br.ReadByte()
		if err != nil {
			return nil, err
		}
		if c == '\r' || c == '\n' {
			continue
		}
		if c != '*' {
			br.UnreadByte()
			line, err := br.ReadBytes('\n')
			if err != nil {
				return nil, err
			}
			f := bytes.Fields(line)
			if len(f) == 0 {
				continue
			}
			return f, nil
		}
		line, err := br.ReadBytes('\n')
		if err != nil {
			return nil, err
		}
		n, err := strconv.Atoi(strings.TrimSpace(string(line)))
		if err != nil || n < 0 {
			return nil, fmt.Errorf("protocol error: bad multibulk length %q", line)
		}
		args := make([][]byte, 0, n)
		for i := 0; i < n; i++ {
			h, err := br.ReadBytes('\n')
			if err != nil {
				return nil, err
			}
			if len(h) < 4 || h[0] != '$' {
				return nil, fmt.Errorf("protocol error: expected '$', got %q", h)
			}
			l, err := strconv.Atoi(strings.TrimSpace(string(h[1:])))
			if err != nil || l < 0 {
				return nil, fmt.Errorf("protocol error: bad bulk length %q", h)
			}
			b := make([]byte, l+2)
			if _, err := io.ReadFull(br, b); err != nil {
				return nil, err
			}
			if b[l] != '\r' || b[l+1] != '\n' {
				return nil, fmt.Errorf("protocol error: bulk not terminated by CRLF")
			}
			args = append(args, b[:l])
		}
		if n == 0 {
			continue
		}
		return args, nil
	}
}

// ---- connection loop ------------------------------------------------------------------

func (sv *Server) serve(c *simnet.Conn) {
	sv.connSeq++
	cn := &ConnState{ID: sv.connSeq, C: c, BR: bufio.NewReaderSize(c, 65536), Authed: sv.Password == ""}
	sv.Conns = append(sv.Conns, cn)
	defer func() {
		cn.Closed = true
		c.Close()
	}()
	for {
		args, err := ReadCommand(cn.BR)
		if err != nil {
			return
		}
		if sv.Special != nil && sv.Special(sv, cn, args) {
			if cn.Closed {
				return
			}
			continue
		}
		reply := sv.dispatch(cn, args)
		if reply != nil {
			if _, err := c.Write(reply); err != nil {
				return
			}
		}
	}
}

func (sv *Server) logApplied(cn *ConnState, args [][]byte, inExec bool, reply []byte) {
	sv.seq++
	cp := make([][]byte, len(args))
	for i, a := range args {
		cp[i] = append([]byte(nil), a...)
	}
	r := ""
	if len(reply) > 0 {
		r = string(reply[:minInt(len(reply), 40)])
	}
	nid := -1
	if cn.C != nil {
		nid = cn.C.ID
	}
	sv.Applied = append(sv.Applied, Applied{Seq: sv.seq, T: sv.S.Now(), Conn: cn.ID, NetID: nid, DB: cn.DB, Args: cp, InExec: inExec, ExecID: sv.curExec, IsError: len(reply) > 0 && reply[0] == '-', Reply: r})
}

func minInt(a, b int) int {
	if a < b {
		return a
	}
	return b
}

func (sv *Server) dispatch(cn *ConnState, args [][]byte) []byte {
	name := strings.ToLower(string(args[0]))
	if name == "auth" && sv.AuthUnknown && len(args) >= 2 {
		// a server that does not implement this auth command answers the way Redis >= 5 answers any unknown command:
		// with the arguments echoed back
		return errReply(fmt.Sprintf("ERR unknown command `%s`, with args beginning with: `%s`, ", args[0], args[1]))
	}
	if name == "auth" {
		if len(args) != 2 {
			return errReply("ERR wrong number of arguments for 'auth' command")
		}
		if sv.Password == "" {
			return errReply("ERR Client sent AUTH, but no password is set")
		}
		if string(args[1]) == sv.Password {
			cn.Authed = true
			return status("OK")
		}
		return errReply("ERR invalid password")
	}
	if !cn.Authed {
		return errReply("NOAUTH Authentication required.")
	}
	switch name {
	case "multi":
		if cn.Multi {
			return errReply("ERR MULTI calls can not be nested")
		}
		cn.Multi, cn.Queue, cn.Dirty = true, nil, false
		return status("OK")
	case "discard":
		if !cn.Multi {
			return errReply("ERR DISCARD without MULTI")
		}
		cn.Multi, cn.Queue = false, nil
		return status("OK")
	case "exec":
		if !cn.Multi {
			return errReply("ERR EXEC without MULTI")
		}
		q := cn.Queue
		cn.Multi, cn.Queue = false, nil
		if cn.Dirty {
			return errReply("EXECABORT Transaction discarded because of previous errors.")
		}
		// atomic: no scheduling point between the queued commands
		var parts [][]byte
		sv.execSeq++
		sv.curExec = sv.execSeq
		for _, a := range q {
			parts = append(parts, sv.execute(cn, a, true))
		}
		sv.curExec = 0
		return array(parts...)
	}
	if cn.Multi {
		if !sv.known(name) && !sv.Lenient && !(sv.LogOnly != nil && sv.LogOnly(name)) {
			cn.Dirty = true
			return errReply(fmt.Sprintf("ERR unknown command `%s`", args[0]))
		}
		cp := make([][]byte, len(args))
		for i, a := range args {
			cp[i] = append([]byte(nil), a...)
		}
		cn.Queue = append(cn.Queue, cp)
		return status("QUEUED")
	}
	return sv.execute(cn, args, false)
}

var knownCmds = map[string]bool{}

func init() {
	for _, c := range strings.Fields("ping echo select info exists del unlink set setex psetex get append incr decr incrby decrby mset getset " +
		"lpush rpush lpop rpop llen hset hmset hdel hgetall hget sadd srem zadd zrem zincrby expire pexpire expireat pexpireat persist pttl ttl rename " +
		"restore dump scan script eval evalsha publish flushall flushdb replconf config dbsize type keys setnx hsetnx hincrby smembers lrange zrange") {
		knownCmds[c] = true
	}
}

func (sv *Server) known(name string) bool { return knownCmds[name] }

func (sv *Server) execute(cn *ConnState, args [][]byte, inExec bool) []byte {
	if sv.Before != nil {
		sv.Before(cn, args)
	}
	if sv.Fail != nil {
		if e := sv.Fail(cn.ID, cn.DB, args); e != "" {
			r := errReply(e)
			sv.logApplied(cn, args, inExec, r)
			return r
		}
	}
	var r []byte
	if sv.LogOnly != nil && sv.LogOnly(strings.ToLower(string(args[0]))) {
		r = status("OK")
	} else {
		r = sv.run(cn, args)
	}
	sv.logApplied(cn, args, inExec, r)
	return r
}

func wrongArgs(name string) []byte {
	return errReply(fmt.Sprintf("ERR wrong number of arguments for '%s' command", name))
}

var wrongType = errReply("WRONGTYPE Operation against a key holding the wrong kind of value")
var notInt = errReply("ERR value is not an integer or out of range")

func parseInt(b []byte) (int64, bool) {
	v, err := strconv.ParseInt(string(b), 10, 64)
	return v, err == nil
}

// ParseScore follows strtod as ZADD does: accepts inf/+inf/-inf/infinity in any case, rejects nan and garbage.
func ParseScore(b []byte) (float64, bool) {
	s := strings.ToLower(string(b))
	if s == "" || strings.ContainsAny(s, " \t\r\n") {
		return 0, false
	}
	v, err := strconv.ParseFloat(s, 64)
	if err != nil {
		// out-of-range values parse to +-Inf with an error in Go; strtod returns HUGE_VAL, which Redis accepts
		if ne, ok := err.(*strconv.NumError); ok && ne.Err == strconv.ErrRange {
			return v, true
		}
		return 0, false
	}
	if math.IsNaN(v) {
		return 0, false
	}
	return v, true
}

func (sv *Server) run(cn *ConnState, args [][]byte) []byte {
	name := strings.ToLower(string(args[0]))
	db := cn.DB
	d := sv.db(db)
	a := args[1:]
	key := ""
	if len(a) > 0 {
		key = string(a[0])
	}
	switch name {
	case "ping":
		if len(a) == 1 {
			return bulk(a[0])
		}
		return status("PONG")
	case "echo":
		if len(a) != 1 {
			return wrongArgs(name)
		}
		return bulk(a[0])
	case "select":
		if len(a) != 1 {
			return wrongArgs(name)
		}
		n, ok := parseInt(a[0])
		if !ok {
			return errReply("ERR invalid DB index")
		}
		if n < 0 || int(n) >= sv.NumDBs {
			return errReply("ERR DB index is out of range")
		}
		cn.DB = int(n)
		return status("OK")
	case "info":
		sec := "all"
		if len(a) >= 1 {
			sec = strings.ToLower(string(a[0]))
		}
		return bulk([]byte(sv.info(sec)))
	case "config":
		if len(a) == 2 && strings.EqualFold(string(a[0]), "get") {
			switch strings.ToLower(string(a[1])) {
			case "rdbchecksum":
				return array(bulk([]byte("rdbchecksum")), bulk([]byte("yes")))
			case "databases":
				return array(bulk([]byte("databases")), bulk([]byte(strconv.Itoa(sv.NumDBs))))
			}
			return array()
		}
		return status("OK")
	case "replconf":
		return status("OK")
	case "dbsize":
		return integer(int64(len(sv.Keys(db))))
	case "exists":
		if len(a) < 1 {
			return wrongArgs(name)
		}
		n := int64(0)
		for _, k := range a {
			if sv.Get(db, string(k)) != nil {
				n++
			}
		}
		return integer(n)
	case "del", "unlink":
		if len(a) < 1 {
			return wrongArgs(name)
		}
		n := int64(0)
		for _, k := range a {
			if sv.Get(db, string(k)) != nil {
				delete(d, string(k))
				n++
			}
		}
		return integer(n)
	case "type":
		e := sv.Get(db, key)
		if e == nil {
			return status("none")
		}
		return status(e.Val.Kind.String())
	case "keys":
		var parts [][]byte
		for _, k := range sv.Keys(db) {
			parts = append(parts, bulk([]byte(k)))
		}
		return array(parts...)
	case "flushall":
		sv.DBs = map[int]map[string]*Entry{}
		return status("OK")
	case "flushdb":
		sv.DBs[db] = map[string]*Entry{}
		return status("OK")
	case "set":
		if len(a) < 2 {
			return wrongArgs(name)
		}
		var exp int64
		nx, xx := false, false
		for i := 2; i < len(a); i++ {
			switch strings.ToLower(string(a[i])) {
			case "nx":
				nx = true
			case "xx":
				xx = true
			case "ex", "px":
				if i+1 >= len(a) {
					return errReply("ERR syntax error")
				}
				v, ok := parseInt(a[i+1])
				if !ok || v <= 0 {
					return errReply("ERR invalid expire time in set")
				}
				if strings.ToLower(string(a[i])) == "ex" {
					v *= 1000
				}
				exp = nowMs() + v
				i++
			default:
				return errReply("ERR syntax error")
			}
		}
		old := sv.Get(db, key)
		if (nx && old != nil) || (xx && old == nil) {
			return bulk(nil)
		}
		d[key] = &Entry{Val: &rc.Value{Kind: rc.KString, Str: append([]byte(nil), a[1]...)}, ExpireAt: exp, SetAtSeq: sv.seq + 1}
		return status("OK")
	case "setnx":
		if len(a) != 2 {
			return wrongArgs(name)
		}
		if sv.Get(db, key) != nil {
			return integer(0)
		}
		d[key] = &Entry{Val: &rc.Value{Kind: rc.KString, Str: append([]byte(nil), a[1]...)}, SetAtSeq: sv.seq + 1}
		return integer(1)
	case "setex", "psetex":
		if len(a) != 3 {
			return wrongArgs(name)
		}
		v, ok := parseInt(a[1])
		if !ok {
			return notInt
		}
		if v <= 0 {
			return errReply("ERR invalid expire time in " + name)
		}
		if name == "setex" {
			v *= 1000
		}
		d[key] = &Entry{Val: &rc.Value{Kind: rc.KString, Str: append([]byte(nil), a[2]...)}, ExpireAt: nowMs() + v, SetAtSeq: sv.seq + 1}
		return status("OK")
	case "mset":
		if len(a) < 2 || len(a)%2 != 0 {
			return wrongArgs(name)
		}
		for i := 0; i < len(a); i += 2 {
			d[string(a[i])] = &Entry{Val: &rc.Value{Kind: rc.KString, Str: append([]byte(nil), a[i+1]...)}, SetAtSeq: sv.seq + 1}
		}
		return status("OK")
	case "get":
		if len(a) != 1 {
			return wrongArgs(name)
		}
		e := sv.Get(db, key)
		if e == nil {
			return bulk(nil)
		}
		if e.Val.Kind != rc.KString {
			return wrongType
		}
		return bulk(e.Val.Str)
	case "getset":
		if len(a) != 2 {
			return wrongArgs(name)
		}
		e := sv.Get(db, key)
		var old []byte
		if e != nil {
			if e.Val.Kind != rc.KString {
				return wrongType
			}
			old = e.Val.Str
		}
		d[key] = &Entry{Val: &rc.Value{Kind: rc.KString, Str: append([]byte(nil), a[1]...)}, SetAtSeq: sv.seq + 1}
		return bulk(old)
	case "append":
		if len(a) != 2 {
			return wrongArgs(name)
		}
		e := sv.Get(db, key)
		if e == nil {
			e = &Entry{Val: &rc.Value{Kind: rc.KString}}
			d[key] = e
		}
		if e.Val.Kind != rc.KString {
			return wrongType
		}
		e.Val.Str = append(append([]byte(nil), e.Val.Str...), a[1]...)
		return integer(int64(len(e.Val.Str)))
	case "incr", "decr", "incrby", "decrby":
		delta := int64(1)
		if name == "incrby" || name == "decrby" {
			if len(a) != 2 {
				return wrongArgs(name)
			}
			v, ok := parseInt(a[1])
			if !ok {
				return notInt
			}
			delta = v
		} else if len(a) != 1 {
			return wrongArgs(name)
		}
		if name == "decr" || name == "decrby" {
			delta = -delta
		}
		e := sv.Get(db, key)
		cur := int64(0)
		if e != nil {
			if e.Val.Kind != rc.KString {
				return wrongType
			}
			v, ok := parseInt(e.Val.Str)
			if !ok {
				return notInt
			}
			cur = v
		} else {
			e = &Entry{Val: &rc.Value{Kind: rc.KString}}
			d[key] = e
		}
		cur += delta
		e.Val.Str = []byte(strconv.FormatInt(cur, 10))
		return integer(cur)
	case "lpush", "rpush":
		if len(a) < 2 {
			return wrongArgs(name)
		}
		e := sv.Get(db, key)
		if e == nil {
			e = &Entry{Val: &rc.Value{Kind: rc.KList}, SetAtSeq: sv.seq + 1}
			d[key] = e
		}
		if e.Val.Kind != rc.KList {
			return wrongType
		}
		for _, v := range a[1:] {
			cp := append([]byte(nil), v...)
			if name == "rpush" {
				e.Val.List = append(e.Val.List, cp)
			} else {
				e.Val.List = append([][]byte{cp}, e.Val.List...)
			}
		}
		return integer(int64(len(e.Val.List)))
	case "lpop", "rpop":
		if len(a) != 1 {
			return wrongArgs(name)
		}
		e := sv.Get(db, key)
		if e == nil {
			return bulk(nil)
		}
		if e.Val.Kind != rc.KList {
			return wrongType
		}
		var v []byte
		if name == "lpop" {
			v, e.Val.List = e.Val.List[0], e.Val.List[1:]
		} else {
			v, e.Val.List = e.Val.List[len(e.Val.List)-1], e.Val.List[:len(e.Val.List)-1]
		}
		if len(e.Val.List) == 0 {
			delete(d, key)
		}
		return bulk(v)
	case "llen":
		e := sv.Get(db, key)
		if e == nil {
			return integer(0)
		}
		if e.Val.Kind != rc.KList {
			return wrongType
		}
		return integer(int64(len(e.Val.List)))
	case "hset", "hmset", "hsetnx":
		if len(a) < 3 || len(a)%2 != 1 {
			return wrongArgs(name)
		}
		e := sv.Get(db, key)
		if e == nil {
			e = &Entry{Val: &rc.Value{Kind: rc.KHash}, SetAtSeq: sv.seq + 1}
			d[key] = e
		}
		if e.Val.Kind != rc.KHash {
			return wrongType
		}
		added := int64(0)
		for i := 1; i < len(a); i += 2 {
			if k := e.find(a[i]); k >= 0 {
				if name != "hsetnx" {
					e.Val.Hash[k].V = append([]byte(nil), a[i+1]...)
				}
			} else {
				e.Val.Hash = append(e.Val.Hash, rc.Pair{F: append([]byte(nil), a[i]...), V: append([]byte(nil), a[i+1]...)})
				e.added(a[i], len(e.Val.Hash)-1)
				added++
			}
		}
		if name == "hmset" {
			return status("OK")
		}
		return integer(added)
	case "hdel":
		if len(a) < 2 {
			return wrongArgs(name)
		}
		e := sv.Get(db, key)
		if e == nil {
			return integer(0)
		}
		if e.Val.Kind != rc.KHash {
			return wrongType
		}
		n := int64(0)
		for _, f := range a[1:] {
			if k := e.find(f); k >= 0 {
				e.Val.Hash = append(e.Val.Hash[:k], e.Val.Hash[k+1:]...)
				e.idx = nil
				n++
			}
		}
		if len(e.Val.Hash) == 0 {
			delete(d, key)
		}
		return integer(n)
	case "hget":
		e := sv.Get(db, key)
		if e == nil || len(a) != 2 {
			return bulk(nil)
		}
		if e.Val.Kind != rc.KHash {
			return wrongType
		}
		for _, p := range e.Val.Hash {
			if bytes.Equal(p.F, a[1]) {
				return bulk(p.V)
			}
		}
		return bulk(nil)
	case "hgetall":
		if len(a) != 1 {
			return wrongArgs(name)
		}
		e := sv.Get(db, key)
		if e == nil {
			return array()
		}
		if e.Val.Kind != rc.KHash {
			return wrongType
		}
		var parts [][]byte
		for _, p := range e.Val.Hash {
			parts = append(parts, bulk(p.F), bulk(p.V))
		}
		return array(parts...)
	case "hincrby":
		if len(a) != 3 {
			return wrongArgs(name)
		}
		delta, ok := parseInt(a[2])
		if !ok {
			return notInt
		}
		e := sv.Get(db, key)
		if e == nil {
			e = &Entry{Val: &rc.Value{Kind: rc.KHash}}
			d[key] = e
		}
		if e.Val.Kind != rc.KHash {
			return wrongType
		}
		for k := range e.Val.Hash {
			if bytes.Equal(e.Val.Hash[k].F, a[1]) {
				cur, ok := parseInt(e.Val.Hash[k].V)
				if !ok {
					return errReply("ERR hash value is not an integer")
				}
				cur += delta
				e.Val.Hash[k].V = []byte(strconv.FormatInt(cur, 10))
				return integer(cur)
			}
		}
		e.Val.Hash = append(e.Val.Hash, rc.Pair{F: append([]byte(nil), a[1]...), V: []byte(strconv.FormatInt(delta, 10))})
		e.idx = nil
		return integer(delta)
	case "sadd", "srem":
		if len(a) < 2 {
			return wrongArgs(name)
		}
		e := sv.Get(db, key)
		if e == nil {
			if name == "srem" {
				return integer(0)
			}
			e = &Entry{Val: &rc.Value{Kind: rc.KSet}, SetAtSeq: sv.seq + 1}
			d[key] = e
		}
		if e.Val.Kind != rc.KSet {
			return wrongType
		}
		n := int64(0)
		for _, m := range a[1:] {
			idx := e.find(m)
			if name == "sadd" && idx < 0 {
				e.Val.Set = append(e.Val.Set, append([]byte(nil), m...))
				e.added(m, len(e.Val.Set)-1)
				n++
			}
			if name == "srem" && idx >= 0 {
				e.Val.Set = append(e.Val.Set[:idx], e.Val.Set[idx+1:]...)
				e.idx = nil
				n++
			}
		}
		if len(e.Val.Set) == 0 {
			delete(d, key)
		}
		return integer(n)
	case "zadd":
		if len(a) < 3 {
			return wrongArgs(name)
		}
		i := 1
		nx, xx, incr := false, false, false
		for ; i < len(a); i++ {
			o := strings.ToLower(string(a[i]))
			if o == "nx" {
				nx = true
			} else if o == "xx" {
				xx = true
			} else if o == "ch" {
			} else if o == "incr" {
				incr = true
			} else {
				break
			}
		}
		rest := a[i:]
		if len(rest) == 0 || len(rest)%2 != 0 {
			return errReply("ERR syntax error")
		}
		scores := make([]float64, len(rest)/2)
		for k := 0; k < len(rest); k += 2 {
			v, ok := ParseScore(rest[k])
			if !ok {
				return errReply("ERR value is not a valid float")
			}
			scores[k/2] = v
		}
		e := sv.Get(db, key)
		if e == nil {
			if xx {
				return integer(0)
			}
			e = &Entry{Val: &rc.Value{Kind: rc.KZSet}, SetAtSeq: sv.seq + 1}
			d[key] = e
		}
		if e.Val.Kind != rc.KZSet {
			return wrongType
		}
		added := int64(0)
		for k := 0; k < len(rest); k += 2 {
			m := rest[k+1]
			idx := e.find(m)
			if idx >= 0 {
				if !nx {
					if incr {
						e.Val.ZSet[idx].S += scores[k/2]
					} else {
						e.Val.ZSet[idx].S = scores[k/2]
					}
				}
			} else if !xx {
				e.Val.ZSet = append(e.Val.ZSet, rc.ZPair{M: append([]byte(nil), m...), S: scores[k/2]})
				e.added(m, len(e.Val.ZSet)-1)
				added++
			}
		}
		if len(e.Val.ZSet) == 0 {
			delete(d, key)
		}
		return integer(added)
	case "zincrby":
		if len(a) != 3 {
			return wrongArgs(name)
		}
		v, ok := ParseScore(a[1])
		if !ok {
			return errReply("ERR value is not a valid float")
		}
		e := sv.Get(db, key)
		if e == nil {
			e = &Entry{Val: &rc.Value{Kind: rc.KZSet}}
			d[key] = e
		}
		if e.Val.Kind != rc.KZSet {
			return wrongType
		}
		for j := range e.Val.ZSet {
			if bytes.Equal(e.Val.ZSet[j].M, a[2]) {
				e.Val.ZSet[j].S += v
				return bulk([]byte(strconv.FormatFloat(e.Val.ZSet[j].S, 'g', 17, 64)))
			}
		}
		e.Val.ZSet = append(e.Val.ZSet, rc.ZPair{M: append([]byte(nil), a[2]...), S: v})
		e.idx = nil
		return bulk([]byte(strconv.FormatFloat(v, 'g', 17, 64)))
	case "zrem":
		if len(a) < 2 {
			return wrongArgs(name)
		}
		e := sv.Get(db, key)
		if e == nil {
			return integer(0)
		}
		if e.Val.Kind != rc.KZSet {
			return wrongType
		}
		n := int64(0)
		for _, m := range a[1:] {
			if j := e.find(m); j >= 0 {
				e.Val.ZSet = append(e.Val.ZSet[:j], e.Val.ZSet[j+1:]...)
				e.idx = nil
				n++
			}
		}
		if len(e.Val.ZSet) == 0 {
			delete(d, key)
		}
		return integer(n)
	case "expire", "pexpire", "expireat", "pexpireat":
		if len(a) != 2 {
			return wrongArgs(name)
		}
		v, ok := parseInt(a[1])
		if !ok {
			return notInt
		}
		e := sv.Get(db, key)
		if e == nil {
			return integer(0)
		}
		var at int64
		switch name {
		case "expire":
			at = nowMs() + v*1000
		case "pexpire":
			at = nowMs() + v
		case "expireat":
			at = v * 1000
		default:
			at = v
		}
		if at <= nowMs() {
			delete(d, key)
			return integer(1)
		}
		e.ExpireAt = at
		return integer(1)
	case "persist":
		e := sv.Get(db, key)
		if e == nil || e.ExpireAt == 0 {
			return integer(0)
		}
		e.ExpireAt = 0
		return integer(1)
	case "pttl", "ttl":
		if len(a) != 1 {
			return wrongArgs(name)
		}
		e := sv.Get(db, key)
		if e == nil {
			return integer(-2)
		}
		if e.ExpireAt == 0 {
			return integer(-1)
		}
		left := e.ExpireAt - nowMs()
		if name == "ttl" {
			left = (left + 500) / 1000
		}
		return integer(left)
	case "rename":
		if len(a) != 2 {
			return wrongArgs(name)
		}
		e := sv.Get(db, key)
		if e == nil {
			return errReply("ERR no such key")
		}
		delete(d, key)
		d[string(a[1])] = e
		return status("OK")
	case "restore":
		return sv.restore(cn, a)
	case "dump":
		if len(a) != 1 {
			return wrongArgs(name)
		}
		e := sv.Get(db, key)
		if e == nil {
			return bulk(nil)
		}
		return bulk(sv.DumpOf(e))
	case "scan":
		if len(a) < 1 {
			return wrongArgs(name)
		}
		cur, ok := parseInt(a[0])
		if !ok {
			return errReply("ERR invalid cursor")
		}
		count := 10
		for i := 1; i+1 < len(a); i += 2 {
			if strings.EqualFold(string(a[i]), "count") {
				if v, ok := parseInt(a[i+1]); ok && v > 0 {
					count = int(v)
				}
			}
		}
		if sv.scans == nil {
			sv.scans = map[int64]*scanState{}
		}
		var st *scanState
		if cur == 0 {
			ks := sv.Keys(db)
			st = &scanState{db: db}
			if sv.ScanOrder != nil {
				for _, i := range sv.ScanOrder(len(ks)) {
					st.order = append(st.order, ks[i])
				}
			} else {
				st.order = ks
			}
		} else {
			st = sv.scans[cur]
			delete(sv.scans, cur)
			if st == nil {
				return array(bulk([]byte("0")), array())
			}
		}
		page := count
		if sv.ScanPage != nil {
			page = sv.ScanPage(count)
		}
		var parts [][]byte
		for page > 0 && st.pos < len(st.order) {
			k := st.order[st.pos]
			st.pos++
			if sv.Get(st.db, k) != nil { // keys deleted meanwhile are not returned
				parts = append(parts, bulk([]byte(k)))
				page--
			}
		}
		next := int64(0)
		if st.pos < len(st.order) {
			sv.cursorSeq++
			next = sv.cursorSeq*7919<<4 | 9
			sv.scans[next] = st
		}
		return array(bulk([]byte(strconv.FormatInt(next, 10))), array(parts...))
	case "script":
		if len(a) >= 2 && strings.EqualFold(string(a[0]), "load") {
			sv.Scripts = append(sv.Scripts, string(a[1]))
			h := sha1.Sum(a[1])
			return bulk([]byte(hex.EncodeToString(h[:])))
		}
		return status("OK")
	case "eval", "evalsha":
		return bulk(nil)
	case "publish":
		return integer(0)
	}
	if sv.Lenient {
		return status("OK")
	}
	return errReply(fmt.Sprintf("ERR unknown command `%s`, with args beginning with: ", args[0]))
}

// DumpOf returns the DUMP payload of an entry (the planted one, or a plain serialisation).
func (sv *Server) DumpOf(e *Entry) []byte {
	if e.Dump != nil {
		return e.Dump
	}
	t := map[rc.Kind]int{rc.KString: rc.TString, rc.KList: rc.TList, rc.KSet: rc.TSet, rc.KZSet: rc.TZSet2, rc.KHash: rc.THash, rc.KStream: rc.TStream}[e.Val.Kind]
	return rc.DumpPayload(t, rc.EncodeValue(e.Val, t, rc.Zero), uint16(sv.RDBVersion))
}

func (sv *Server) restore(cn *ConnState, a [][]byte) []byte {
	if len(a) < 3 {
		return wrongArgs("restore")
	}
	replace, absttl := false, false
	for i := 3; i < len(a); i++ {
		o := strings.ToLower(string(a[i]))
		switch {
		case o == "replace" && sv.RestoreReplace:
			replace = true
		case o == "absttl" && sv.RestoreIdleFreq:
			absttl = true
		case (o == "idletime" || o == "freq") && sv.RestoreIdleFreq && i+1 < len(a):
			v, ok := parseInt(a[i+1])
			if !ok || v < 0 || (o == "freq" && v > 255) {
				return errReply("ERR Invalid IDLETIME/FREQ value, must be >= 0")
			}
			i++
		default:
			return errReply("ERR syntax error")
		}
	}
	key := string(a[0])
	ttl, ok := parseInt(a[1])
	if !ok || ttl < 0 {
		return errReply("ERR Invalid TTL value, must be >= 0")
	}
	d := sv.db(cn.DB)
	if !replace && sv.Get(cn.DB, key) != nil {
		return errReply("BUSYKEY Target key name already exists.")
	}
	v, _, err := rc.DecodeDump(a[2], sv.RDBVersion, sv.KnownType)
	if err != nil {
		if err == rc.ErrDumpChecksum {
			return errReply("ERR DUMP payload version or checksum are wrong")
		}
		return errReply("ERR Bad data format")
	}
	delete(d, key)
	e := &Entry{Val: v, Dump: append([]byte(nil), a[2]...), SetAtSeq: sv.seq + 1}
	if ttl != 0 {
		if absttl {
			e.ExpireAt = ttl
		} else {
			e.ExpireAt = nowMs() + ttl
		}
		if e.ExpireAt <= nowMs() {
			return status("OK") // already expired: Redis 5 deletes/does not create it
		}
	}
	d[key] = e
	return status("OK")
}

func (sv *Server) info(section string) string {
	var sb strings.Builder
	if section == "server" || section == "all" || section == "default" {
		fmt.Fprintf(&sb, "# Server\r\nredis_version:%s\r\nredis_mode:standalone\r\nos:Linux\r\ntcp_port:6379\r\nrun_id:%s\r\n\r\n", sv.Version, strings.Repeat("a", 40))
	}
	if section == "replication" || section == "all" {
		if sv.InfoReplication != nil {
			sb.WriteString(sv.InfoReplication())
		} else {
			fmt.Fprintf(&sb, "# Replication\r\nrole:%s\r\nconnected_slaves:0\r\nmaster_repl_offset:0\r\n\r\n", sv.Role)
		}
	}
	if section == "keyspace" || section == "all" || section == "default" {
		sb.WriteString("# Keyspace\r\n")
		var ids []int
		for i := range sv.DBs {
			ids = append(ids, i)
		}
		sort.Ints(ids)
		for _, i := range ids {
			ks := sv.Keys(i)
			if len(ks) == 0 {
				continue
			}
			exp := 0
			for _, k := range ks {
				if sv.db(i)[k].ExpireAt != 0 {
					exp++
				}
			}
			fmt.Fprintf(&sb, "db%d:keys=%d,expires=%d,avg_ttl=0\r\n", i, len(ks), exp)
		}
	}
	if section == "cluster" {
		sb.WriteString("# Cluster\r\ncluster_enabled:0\r\n")
	}
	return sb.String()
}

// NewDetached returns a keyspace-only model (no network): a reference interpreter for oracles.
func NewDetached() *Server {
	sv := &Server{Name: "reference", DBs: map[int]map[string]*Entry{}, NumDBs: 16, Version: "5.0.7", RDBVersion: 9, RestoreReplace: true, RestoreIdleFreq: true}
	sv.KnownType = func(t int) bool { return (t >= 0 && t <= 5) || (t >= 9 && t <= 15) }
	return sv
}

// Apply executes one command in db on a detached model and returns the raw reply.
func (sv *Server) Apply(db int, args [][]byte) []byte {
	cn := &ConnState{DB: db, Authed: true}
	return sv.run(cn, args)
}

// Snapshot renders the live keyspace (without keys matching skip) in a canonical text form.
func (sv *Server) Snapshot(skip func(db int, key string) bool) map[string]string {
	out := map[string]string{}
	for db := range sv.DBs {
		for _, k := range sv.Keys(db) {
			if skip != nil && skip(db, k) {
				continue
			}
			e := sv.Get(db, k)
			if e == nil {
				continue
			}
			out[fmt.Sprintf("db%d/%q", db, k)] = renderEntry(e)
		}
	}
	return out
}

func renderEntry(e *Entry) string {
	var sb strings.Builder
	v := e.Val
	fmt.Fprintf(&sb, "%s exp=%d ", v.Kind, e.ExpireAt)
	switch v.Kind {
	case rc.KString:
		fmt.Fprintf(&sb, "%q", v.Str)
	case rc.KList:
		for _, x := range v.List {
			fmt.Fprintf(&sb, "%q,", x)
		}
	case rc.KSet:
		var xs []string
		for _, x := range v.Set {
			xs = append(xs, string(x))
		}
		sort.Strings(xs)
		fmt.Fprintf(&sb, "%q", xs)
	case rc.KHash:
		var xs []string
		for _, x := range v.Hash {
			xs = append(xs, fmt.Sprintf("%q=%q", x.F, x.V))
		}
		sort.Strings(xs)
		sb.WriteString(strings.Join(xs, ","))
	case rc.KZSet:
		var xs []string
		for _, x := range v.ZSet {
			xs = append(xs, fmt.Sprintf("%q=%v", x.M, x.S))
		}
		sort.Strings(xs)
		sb.WriteString(strings.Join(xs, ","))
	case rc.KStream:
		fmt.Fprintf(&sb, "stream(%d bytes)", len(v.Stream))
	}
	return sb.String()
}

// DiffSnapshots returns a description of the first difference, or "".
func DiffSnapshots(got, want map[string]string) string {
	var keys []string
	for k := range want {
		keys = append(keys, k)
	}
	for k := range got {
		if _, ok := want[k]; !ok {
			keys = append(keys, k)
		}
	}
	sort.Strings(keys)
	for _, k := range keys {
		g, okg := got[k]
		w, okw := want[k]
		switch {
		case !okg:
			return fmt.Sprintf("%s is missing (reference: %s)", k, clipStr(w))
		case !okw:
			return fmt.Sprintf("%s exists (%s) but must not", k, clipStr(g))
		case g != w:
			return fmt.Sprintf("%s = %s, reference has %s", k, clipStr(g), clipStr(w))
		}
	}
	return ""
}

func clipStr(s string) string {
	if len(s) > 160 {
		return s[:160] + "..."
	}
	return s
}

// DBIDs returns the numbers of all dbs the model has touched, sorted (never iterate sv.DBs directly in oracles).
func (sv *Server) DBIDs() []int {
	var out []int
	for i := range sv.DBs {
		out = append(out, i)
	}
	sort.Ints(out)
	return out
}
