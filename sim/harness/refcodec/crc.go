// Package refcodec holds reference implementations written from the Redis
// documentation / specification texts, independent of the tool's code: they
// are workload generators and oracles.
package refcodec

// CRC64 is the Redis CRC-64 (Jones polynomial 0xad93d23594c935a9, reflected,
// initial value 0, no final xor), computed bit by bit.
func CRC64(crc uint64, data []byte) uint64 {
	const polyReflected = 0x95AC9329AC4BC9B5
	for _, b := range data {
		crc ^= uint64(b)
		for i := 0; i < 8; i++ {
			if crc&1 != 0 {
				crc = (crc >> 1) ^ polyReflected
			} else {
				crc >>= 1
			}
		}
	}
	return crc
}

// CRC16 is CRC-16/XMODEM (poly 0x1021, init 0, not reflected), bit by bit.
func CRC16(data []byte) uint16 {
	var crc uint16
	for _, b := range data {
		crc ^= uint16(b) << 8
		for i := 0; i < 8; i++ {
			if crc&0x8000 != 0 {
				crc = (crc << 1) ^ 0x1021
			} else {
				crc <<= 1
			}
		}
	}
	return crc
}

// KeySlot implements the Redis Cluster specification: hash the substring
// between the first '{' and the first following '}' if it is non-empty,
// otherwise the whole key; CRC16 mod 16384.
func KeySlot(key []byte) int {
	s := -1
	for i, c := range key {
		if c == '{' {
			s = i
			break
		}
	}
	if s >= 0 {
		for e := s + 1; e < len(key); e++ {
			if key[e] == '}' {
				if e != s+1 {
					return int(CRC16(key[s+1:e])) % 16384
				}
				break
			}
		}
	}
	return int(CRC16(key)) % 16384
}
