package refcodec

import "fmt"

// LZFCompress produces a valid LZF stream for in (it need not be smaller).
// mode 0: greedy matches via a 3-byte hash; mode 1: literals only;
// mode 2: greedy but matches capped to short lengths (exercises the short form).
func LZFCompress(in []byte, mode int) []byte {
	var out []byte
	var lit []byte
	flush := func() {
		for len(lit) > 0 {
			n := len(lit)
			if n > 32 {
				n = 32
			}
			out = append(out, byte(n-1))
			out = append(out, lit[:n]...)
			lit = lit[n:]
		}
	}
	table := map[uint32]int{}
	i := 0
	for i < len(in) {
		best, bestOff := 0, 0
		if mode != 1 && i+3 <= len(in) {
			h := uint32(in[i])<<16 | uint32(in[i+1])<<8 | uint32(in[i+2])
			if j, ok := table[h]; ok && i-j <= 8191 && i-j >= 1 {
				l := 0
				max := 264
				if mode == 2 {
					max = 8
				}
				for i+l < len(in) && l < max && in[j+l] == in[i+l] {
					l++
				}
				if l >= 3 {
					best, bestOff = l, i-j-1
				}
			}
			table[h] = i
		}
		if best >= 3 {
			flush()
			l := best - 2
			if l < 7 {
				out = append(out, byte(l<<5)|byte(bestOff>>8), byte(bestOff))
			} else {
				out = append(out, byte(7<<5)|byte(bestOff>>8), byte(l-7), byte(bestOff))
			}
			for k := 1; k < best && i+k+3 <= len(in); k++ {
				h := uint32(in[i+k])<<16 | uint32(in[i+k+1])<<8 | uint32(in[i+k+2])
				table[h] = i + k
			}
			i += best
		} else {
			lit = append(lit, in[i])
			i++
		}
	}
	flush()
	return out
}

// LZFDecompress is the reference decompressor.
func LZFDecompress(in []byte, outlen int) ([]byte, error) {
	out := make([]byte, 0, outlen)
	i := 0
	for i < len(in) {
		ctrl := int(in[i])
		i++
		if ctrl < 32 {
			n := ctrl + 1
			if i+n > len(in) {
				return nil, fmt.Errorf("lzf: literal run past input")
			}
			out = append(out, in[i:i+n]...)
			i += n
		} else {
			l := ctrl >> 5
			if l == 7 {
				if i >= len(in) {
					return nil, fmt.Errorf("lzf: truncated")
				}
				l += int(in[i])
				i++
			}
			if i >= len(in) {
				return nil, fmt.Errorf("lzf: truncated")
			}
			ref := len(out) - ((ctrl&0x1f)<<8 | int(in[i])) - 1
			i++
			if ref < 0 {
				return nil, fmt.Errorf("lzf: reference before start")
			}
			for k := 0; k < l+2; k++ {
				out = append(out, out[ref+k])
			}
		}
	}
	if len(out) != outlen {
		return nil, fmt.Errorf("lzf: got %d bytes, want %d", len(out), outlen)
	}
	return out, nil
}
