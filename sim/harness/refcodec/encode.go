package refcodec

import (
	"encoding/binary"
	"fmt"
	"math"
	"sort"
	"strconv"
)

// ---- logical values -------------------------------------------------------

type Kind int

const (
	KString Kind = iota
	KList
	KSet
	KZSet
	KHash
	KStream
)

func (k Kind) String() string {
	return [...]string{"string", "list", "set", "zset", "hash", "stream"}[k]
}

type Pair struct{ F, V []byte }
type ZPair struct {
	M []byte
	S float64
}

// Value is the logical content of a key.
type Value struct {
	Kind   Kind
	Str    []byte
	List   [][]byte
	Set    [][]byte
	Hash   []Pair
	ZSet   []ZPair
	Stream []byte // opaque serialized form (streams are not materialised element-wise)
}

// RDB value type codes.
const (
	TString      = 0
	TList        = 1
	TSet         = 2
	TZSet        = 3
	THash        = 4
	TZSet2       = 5
	THashZipmap  = 9
	TListZiplist = 10
	TSetIntset   = 11
	TZSetZiplist = 12
	THashZiplist = 13
	TQuicklist   = 14
	TStream      = 15
)

// Chooser is the source of encoding choices (a tape).
type Chooser interface {
	Choose(n int) int
}

type zeroChooser struct{}

func (zeroChooser) Choose(int) int { return 0 }

// Zero always picks the simplest encoding.
var Zero Chooser = zeroChooser{}

// ---- lengths ---------------------------------------------------------------

// AppendLen encodes n; widen 0 = canonical, 1/2 = one/two forms wider (6 -> 14 -> 32 bit).
// Values above 2^32-1 always use the 64-bit form.
func AppendLen(b []byte, n uint64, widen int) []byte {
	form := 0
	switch {
	case n < 64:
		form = 0
	case n < 16384:
		form = 1
	case n <= math.MaxUint32:
		form = 2
	default:
		form = 3
	}
	if form < 3 {
		form += widen
		if form > 2 {
			form = 2
		}
	}
	switch form {
	case 0:
		return append(b, byte(n))
	case 1:
		return append(b, 0x40|byte(n>>8), byte(n))
	case 2:
		var x [4]byte
		binary.BigEndian.PutUint32(x[:], uint32(n))
		return append(append(b, 0x80), x[:]...)
	default:
		var x [8]byte
		binary.BigEndian.PutUint64(x[:], n)
		return append(append(b, 0x81), x[:]...)
	}
}

// canonicalInt reports whether s is the canonical decimal form of an int64.
func canonicalInt(s []byte) (int64, bool) {
	if len(s) == 0 || len(s) > 20 {
		return 0, false
	}
	v, err := strconv.ParseInt(string(s), 10, 64)
	if err != nil {
		return 0, false
	}
	if strconv.FormatInt(v, 10) != string(s) {
		return 0, false
	}
	return v, true
}

// AppendString encodes s as an RDB string. c picks among the encodings legal
// for s: raw (canonical or wider length), int8/16/32 (only for canonical
// integers in range), LZF (any s with len > 3).
func AppendString(b []byte, s []byte, c Chooser) []byte {
	opts := []int{0, 1} // 0 raw, 1 raw with a wider length form, 2 integer, 3 LZF
	if v, ok := canonicalInt(s); ok && v >= math.MinInt32 && v <= math.MaxInt32 {
		opts = append(opts, 2)
	}
	if len(s) > 3 {
		opts = append(opts, 3)
	}
	switch opts[c.Choose(len(opts))] {
	case 1:
		b = AppendLen(b, uint64(len(s)), 1+c.Choose(2))
		return append(b, s...)
	case 2:
		v, _ := canonicalInt(s)
		switch {
		case v >= math.MinInt8 && v <= math.MaxInt8:
			return append(b, 0xC0, byte(int8(v)))
		case v >= math.MinInt16 && v <= math.MaxInt16:
			return append(b, 0xC1, byte(v), byte(v>>8))
		default:
			return append(b, 0xC2, byte(v), byte(v>>8), byte(v>>16), byte(v>>24))
		}
	case 3:
		comp := LZFCompress(s, c.Choose(3))
		b = append(b, 0xC3)
		b = AppendLen(b, uint64(len(comp)), c.Choose(2))
		b = AppendLen(b, uint64(len(s)), c.Choose(2))
		return append(b, comp...)
	}
	b = AppendLen(b, uint64(len(s)), 0)
	return append(b, s...)
}

// AppendRawString always uses the canonical raw form.
func AppendRawString(b []byte, s []byte) []byte {
	b = AppendLen(b, uint64(len(s)), 0)
	return append(b, s...)
}

// ---- ziplist ---------------------------------------------------------------

// Ziplist builds a ziplist blob. For each entry c picks among the encodings
// legal for it (string forms; integer forms when the entry is a canonical
// integer), and whether prevlen uses the 5-byte form although 1 byte suffices.
func Ziplist(entries [][]byte, c Chooser) []byte {
	var body []byte
	prevLen := 0
	tail := 10
	for _, e := range entries {
		start := len(body)
		if prevLen >= 254 || c.Choose(8) == 7 {
			var x [4]byte
			binary.LittleEndian.PutUint32(x[:], uint32(prevLen))
			body = append(append(body, 0xFE), x[:]...)
		} else {
			body = append(body, byte(prevLen))
		}
		v, isInt := canonicalInt(e)
		useInt := isInt && c.Choose(4) != 3 // mostly integer-encode integers, as Redis does
		if useInt {
			switch {
			case v >= 0 && v <= 12:
				body = append(body, 0xF1+byte(v))
			case v >= math.MinInt8 && v <= math.MaxInt8:
				body = append(body, 0xFE, byte(int8(v)))
			case v >= math.MinInt16 && v <= math.MaxInt16:
				body = append(body, 0xC0, byte(v), byte(v>>8))
			case v >= -(1<<23) && v <= (1<<23)-1:
				body = append(body, 0xF0, byte(v), byte(v>>8), byte(v>>16))
			case v >= math.MinInt32 && v <= math.MaxInt32:
				body = append(body, 0xD0, byte(v), byte(v>>8), byte(v>>16), byte(v>>24))
			default:
				var x [8]byte
				binary.LittleEndian.PutUint64(x[:], uint64(v))
				body = append(append(body, 0xE0), x[:]...)
			}
		} else {
			n := len(e)
			form := 0
			switch {
			case n < 64:
				form = 0
			case n < 16384:
				form = 1
			default:
				form = 2
			}
			switch form {
			case 0:
				body = append(body, byte(n))
			case 1:
				body = append(body, 0x40|byte(n>>8), byte(n))
			default:
				var x [4]byte
				binary.BigEndian.PutUint32(x[:], uint32(n))
				body = append(append(body, 0x80), x[:]...)
			}
			body = append(body, e...)
		}
		prevLen = len(body) - start
		tail = 10 + start
	}
	total := 10 + len(body) + 1
	out := make([]byte, 10, total)
	binary.LittleEndian.PutUint32(out[0:], uint32(total))
	binary.LittleEndian.PutUint32(out[4:], uint32(tail))
	n := len(entries)
	if n > 65535 {
		n = 65535
	}
	binary.LittleEndian.PutUint16(out[8:], uint16(n))
	out = append(out, body...)
	return append(out, 0xFF)
}

// Intset builds an intset blob (members must be canonical integers); width is
// the smallest that fits all members, sorted ascending.
func Intset(members []int64) []byte {
	s := append([]int64(nil), members...)
	sort.Slice(s, func(i, j int) bool { return s[i] < s[j] })
	w := 2
	for _, v := range s {
		if v < math.MinInt32 || v > math.MaxInt32 {
			w = 8
		} else if (v < math.MinInt16 || v > math.MaxInt16) && w < 4 {
			w = 4
		}
	}
	out := make([]byte, 8, 8+w*len(s))
	binary.LittleEndian.PutUint32(out[0:], uint32(w))
	binary.LittleEndian.PutUint32(out[4:], uint32(len(s)))
	for _, v := range s {
		var x [8]byte
		binary.LittleEndian.PutUint64(x[:], uint64(v))
		out = append(out, x[:w]...)
	}
	return out
}

// Zipmap builds a zipmap blob. Item lengths must be < 254 (the classic
// hash-max-zipmap-value is 64); free[i] trailing free bytes follow value i.
func Zipmap(pairs []Pair, free []int) []byte {
	n := len(pairs)
	if n > 254 {
		n = 254
	}
	out := []byte{byte(n)}
	for i, p := range pairs {
		if len(p.F) >= 254 || len(p.V) >= 254 {
			panic("zipmap item too long for the reference encoder")
		}
		out = append(out, byte(len(p.F)))
		out = append(out, p.F...)
		fr := 0
		if i < len(free) {
			fr = free[i]
		}
		out = append(out, byte(len(p.V)), byte(fr))
		out = append(out, p.V...)
		for k := 0; k < fr; k++ {
			out = append(out, 0xAA)
		}
	}
	return append(out, 0xFF)
}

// ScoreText renders a score the way Redis stores it in ziplists / type-3 zsets.
func ScoreText(s float64) []byte {
	if s == math.Trunc(s) && math.Abs(s) < 1e15 && !(s == 0 && math.Signbit(s)) {
		return []byte(strconv.FormatInt(int64(s), 10))
	}
	return []byte(strconv.FormatFloat(s, 'g', 17, 64))
}

// ---- value serialisation ----------------------------------------------------

// EncodeValue serialises v as RDB type t (which must be legal for v) and
// returns the value bytes (without type byte and key).
func EncodeValue(v *Value, t int, c Chooser) []byte {
	var b []byte
	switch t {
	case TString:
		return AppendString(nil, v.Str, c)
	case TList:
		b = AppendLen(b, uint64(len(v.List)), c.Choose(3))
		for _, e := range v.List {
			b = AppendString(b, e, c)
		}
	case TSet:
		b = AppendLen(b, uint64(len(v.Set)), c.Choose(3))
		for _, e := range v.Set {
			b = AppendString(b, e, c)
		}
	case TZSet:
		b = AppendLen(b, uint64(len(v.ZSet)), c.Choose(3))
		for _, e := range v.ZSet {
			b = AppendString(b, e.M, c)
			switch {
			case math.IsNaN(e.S):
				b = append(b, 253)
			case math.IsInf(e.S, 1):
				b = append(b, 254)
			case math.IsInf(e.S, -1):
				b = append(b, 255)
			default:
				txt := strconv.FormatFloat(e.S, 'g', 17, 64)
				b = append(b, byte(len(txt)))
				b = append(b, txt...)
			}
		}
	case TZSet2:
		b = AppendLen(b, uint64(len(v.ZSet)), c.Choose(3))
		for _, e := range v.ZSet {
			b = AppendString(b, e.M, c)
			var x [8]byte
			binary.LittleEndian.PutUint64(x[:], math.Float64bits(e.S))
			b = append(b, x[:]...)
		}
	case THash:
		b = AppendLen(b, uint64(len(v.Hash)), c.Choose(3))
		for _, e := range v.Hash {
			b = AppendString(b, e.F, c)
			b = AppendString(b, e.V, c)
		}
	case THashZipmap:
		free := make([]int, len(v.Hash))
		for i := range free {
			if c.Choose(4) == 3 {
				free[i] = 1 + c.Choose(4)
			}
		}
		return AppendString(nil, Zipmap(v.Hash, free), blobChooser{c})
	case TListZiplist:
		return AppendString(nil, Ziplist(v.List, c), blobChooser{c})
	case TSetIntset:
		var ms []int64
		for _, e := range v.Set {
			x, ok := canonicalInt(e)
			if !ok {
				panic("intset member is not an integer")
			}
			ms = append(ms, x)
		}
		return AppendString(nil, Intset(ms), blobChooser{c})
	case TZSetZiplist:
		var es [][]byte
		for _, e := range v.ZSet {
			es = append(es, e.M, ScoreText(e.S))
		}
		return AppendString(nil, Ziplist(es, c), blobChooser{c})
	case THashZiplist:
		var es [][]byte
		for _, e := range v.Hash {
			es = append(es, e.F, e.V)
		}
		return AppendString(nil, Ziplist(es, c), blobChooser{c})
	case TQuicklist:
		// split the list into nodes of tape-chosen sizes
		var nodes [][][]byte
		rest := v.List
		for len(rest) > 0 {
			n := 1 + c.Choose(len(rest))
			if n > 8 && c.Choose(2) == 0 {
				n = 1 + c.Choose(8)
			}
			nodes = append(nodes, rest[:n])
			rest = rest[n:]
		}
		b = AppendLen(b, uint64(len(nodes)), c.Choose(3))
		for _, nd := range nodes {
			b = AppendString(b, Ziplist(nd, c), blobChooser{c})
		}
	case TStream:
		return append(b, v.Stream...)
	default:
		panic(fmt.Sprintf("EncodeValue: type %d", t))
	}
	return b
}

// blobChooser never picks the integer string encoding for binary blobs (a
// ziplist is never a canonical integer anyway) — it just forwards.
type blobChooser struct{ c Chooser }

func (b blobChooser) Choose(n int) int { return b.c.Choose(n) }

// LegalTypes lists the RDB types that can carry v, given an RDB format version.
func LegalTypes(v *Value, version int) []int {
	var out []int
	small := func(items [][]byte) bool {
		for _, e := range items {
			if len(e) > 60000 {
				return false
			}
		}
		return len(items) < 60000
	}
	switch v.Kind {
	case KString:
		out = []int{TString}
	case KList:
		out = []int{TList}
		if version >= 2 && small(v.List) {
			out = append(out, TListZiplist)
		}
		if version >= 7 && small(v.List) {
			out = append(out, TQuicklist)
		}
	case KSet:
		out = []int{TSet}
		allInt := len(v.Set) > 0
		for _, e := range v.Set {
			if _, ok := canonicalInt(e); !ok {
				allInt = false
			}
		}
		if allInt && version >= 2 {
			out = append(out, TSetIntset)
		}
	case KZSet:
		hasNaN := false
		var ms [][]byte
		for _, e := range v.ZSet {
			if math.IsNaN(e.S) {
				hasNaN = true
			}
			ms = append(ms, e.M)
		}
		out = []int{TZSet}
		if version >= 8 {
			out = append(out, TZSet2)
		}
		if version >= 2 && small(ms) && !hasNaN {
			out = append(out, TZSetZiplist)
		}
	case KHash:
		out = []int{THash}
		var fs [][]byte
		zm := len(v.Hash) < 300
		for _, e := range v.Hash {
			fs = append(fs, e.F, e.V)
			if len(e.F) >= 254 || len(e.V) >= 254 {
				zm = false
			}
		}
		if version >= 4 && small(fs) {
			out = append(out, THashZiplist)
		}
		if version >= 2 && zm {
			out = append(out, THashZipmap)
		}
	case KStream:
		out = []int{TStream}
	}
	return out
}

// ---- stream (syntactic only) -------------------------------------------------

// StreamSpec describes a syntactically valid stream value.
type StreamSpec struct {
	Listpacks  int
	Items      uint64
	LastMs     uint64
	LastSeq    uint64
	Groups     []StreamGroup
	BlobFiller byte
}
type StreamGroup struct {
	Name      []byte
	Ms, Seq   uint64
	PEL       int
	Consumers []StreamConsumer
}
type StreamConsumer struct {
	Name []byte
	PEL  int
}

// EncodeStream serialises the spec in the RDB_TYPE_STREAM_LISTPACKS layout.
func EncodeStream(sp *StreamSpec, c Chooser) []byte {
	var b []byte
	b = AppendLen(b, uint64(sp.Listpacks), c.Choose(3))
	for i := 0; i < sp.Listpacks; i++ {
		id := make([]byte, 16)
		binary.BigEndian.PutUint64(id, sp.LastMs-uint64(sp.Listpacks-i))
		binary.BigEndian.PutUint64(id[8:], uint64(i))
		b = AppendRawString(b, id)
		blob := make([]byte, 7+c.Choose(40))
		for k := range blob {
			blob[k] = sp.BlobFiller + byte(k)
		}
		binary.LittleEndian.PutUint32(blob, uint32(len(blob)))
		blob[len(blob)-1] = 0xFF
		b = AppendString(b, blob, blobChooser{c})
	}
	b = AppendLen(b, sp.Items, c.Choose(2))
	b = AppendLen(b, sp.LastMs, c.Choose(2))
	b = AppendLen(b, sp.LastSeq, c.Choose(2))
	b = AppendLen(b, uint64(len(sp.Groups)), c.Choose(3))
	for _, g := range sp.Groups {
		b = AppendString(b, g.Name, c)
		b = AppendLen(b, g.Ms, c.Choose(2))
		b = AppendLen(b, g.Seq, c.Choose(2))
		b = AppendLen(b, uint64(g.PEL), c.Choose(3))
		for i := 0; i < g.PEL; i++ {
			id := make([]byte, 16)
			binary.BigEndian.PutUint64(id, g.Ms)
			binary.BigEndian.PutUint64(id[8:], uint64(i))
			b = append(b, id...)
			var tm [8]byte
			binary.LittleEndian.PutUint64(tm[:], 1600000000000+uint64(i))
			b = append(b, tm[:]...)
			b = AppendLen(b, uint64(1+i), c.Choose(3))
		}
		b = AppendLen(b, uint64(len(g.Consumers)), c.Choose(3))
		for _, cs := range g.Consumers {
			b = AppendString(b, cs.Name, c)
			var tm [8]byte
			binary.LittleEndian.PutUint64(tm[:], 1600000000123)
			b = append(b, tm[:]...)
			b = AppendLen(b, uint64(cs.PEL), c.Choose(3))
			for i := 0; i < cs.PEL; i++ {
				id := make([]byte, 16)
				binary.BigEndian.PutUint64(id, g.Ms)
				binary.BigEndian.PutUint64(id[8:], uint64(i))
				b = append(b, id...)
			}
		}
	}
	return b
}

// ---- DUMP payload -------------------------------------------------------------

// DumpPayload wraps type byte + value bytes with the version/CRC trailer.
func DumpPayload(t int, val []byte, version uint16) []byte {
	b := make([]byte, 0, len(val)+11)
	b = append(b, byte(t))
	b = append(b, val...)
	b = append(b, byte(version), byte(version>>8))
	crc := CRC64(0, b)
	var x [8]byte
	binary.LittleEndian.PutUint64(x[:], crc)
	return append(b, x[:]...)
}
