package refcodec

import (
	"bytes"
	"encoding/binary"
	"errors"
	"fmt"
	"math"
	"strconv"
)

// reference reader over a byte slice

type rd struct {
	b []byte
	i int
}

var errShort = errors.New("refcodec: truncated")

func (r *rd) byte() (byte, error) {
	if r.i >= len(r.b) {
		return 0, errShort
	}
	c := r.b[r.i]
	r.i++
	return c, nil
}

func (r *rd) take(n int) ([]byte, error) {
	if n < 0 || r.i+n > len(r.b) {
		return nil, errShort
	}
	s := r.b[r.i : r.i+n]
	r.i += n
	return s, nil
}

// length returns (value, isSpecialEncoding).
func (r *rd) length() (uint64, bool, error) {
	c, err := r.byte()
	if err != nil {
		return 0, false, err
	}
	switch c >> 6 {
	case 0:
		return uint64(c & 0x3f), false, nil
	case 1:
		d, err := r.byte()
		return uint64(c&0x3f)<<8 | uint64(d), false, err
	case 3:
		return uint64(c & 0x3f), true, nil
	}
	switch c {
	case 0x80:
		s, err := r.take(4)
		if err != nil {
			return 0, false, err
		}
		return uint64(binary.BigEndian.Uint32(s)), false, nil
	case 0x81:
		s, err := r.take(8)
		if err != nil {
			return 0, false, err
		}
		return binary.BigEndian.Uint64(s), false, nil
	}
	return 0, false, fmt.Errorf("refcodec: bad length byte %#x", c)
}

func (r *rd) plainLen() (uint64, error) {
	n, enc, err := r.length()
	if err == nil && enc {
		err = fmt.Errorf("refcodec: special encoding where a length was expected")
	}
	return n, err
}

func (r *rd) str() ([]byte, error) {
	n, enc, err := r.length()
	if err != nil {
		return nil, err
	}
	if !enc {
		return r.take(int(n))
	}
	switch n {
	case 0:
		c, err := r.byte()
		return []byte(strconv.Itoa(int(int8(c)))), err
	case 1:
		s, err := r.take(2)
		if err != nil {
			return nil, err
		}
		return []byte(strconv.Itoa(int(int16(binary.LittleEndian.Uint16(s))))), nil
	case 2:
		s, err := r.take(4)
		if err != nil {
			return nil, err
		}
		return []byte(strconv.Itoa(int(int32(binary.LittleEndian.Uint32(s))))), nil
	case 3:
		cl, err := r.plainLen()
		if err != nil {
			return nil, err
		}
		ul, err := r.plainLen()
		if err != nil {
			return nil, err
		}
		s, err := r.take(int(cl))
		if err != nil {
			return nil, err
		}
		return LZFDecompress(s, int(ul))
	}
	return nil, fmt.Errorf("refcodec: unknown string encoding %d", n)
}

// ZiplistEntries decodes a ziplist blob into its entries (integers rendered as decimal strings).
func ZiplistEntries(z []byte) ([][]byte, error) {
	if len(z) < 11 {
		return nil, errShort
	}
	r := &rd{b: z, i: 10}
	var out [][]byte
	for {
		c, err := r.byte()
		if err != nil {
			return nil, err
		}
		if c == 0xFF {
			break
		}
		if c == 0xFE {
			if _, err := r.take(4); err != nil {
				return nil, err
			}
		}
		h, err := r.byte()
		if err != nil {
			return nil, err
		}
		switch {
		case h>>6 == 0:
			s, err := r.take(int(h & 0x3f))
			if err != nil {
				return nil, err
			}
			out = append(out, s)
		case h>>6 == 1:
			d, err := r.byte()
			if err != nil {
				return nil, err
			}
			s, err := r.take(int(h&0x3f)<<8 | int(d))
			if err != nil {
				return nil, err
			}
			out = append(out, s)
		case h == 0x80:
			l, err := r.take(4)
			if err != nil {
				return nil, err
			}
			s, err := r.take(int(binary.BigEndian.Uint32(l)))
			if err != nil {
				return nil, err
			}
			out = append(out, s)
		case h == 0xC0:
			s, err := r.take(2)
			if err != nil {
				return nil, err
			}
			out = append(out, []byte(strconv.FormatInt(int64(int16(binary.LittleEndian.Uint16(s))), 10)))
		case h == 0xD0:
			s, err := r.take(4)
			if err != nil {
				return nil, err
			}
			out = append(out, []byte(strconv.FormatInt(int64(int32(binary.LittleEndian.Uint32(s))), 10)))
		case h == 0xE0:
			s, err := r.take(8)
			if err != nil {
				return nil, err
			}
			out = append(out, []byte(strconv.FormatInt(int64(binary.LittleEndian.Uint64(s)), 10)))
		case h == 0xF0:
			s, err := r.take(3)
			if err != nil {
				return nil, err
			}
			v := int32(uint32(s[0])<<8|uint32(s[1])<<16|uint32(s[2])<<24) >> 8
			out = append(out, []byte(strconv.FormatInt(int64(v), 10)))
		case h == 0xFE:
			c, err := r.byte()
			if err != nil {
				return nil, err
			}
			out = append(out, []byte(strconv.FormatInt(int64(int8(c)), 10)))
		case h >= 0xF1 && h <= 0xFD:
			out = append(out, []byte(strconv.Itoa(int(h&0x0f)-1)))
		default:
			return nil, fmt.Errorf("refcodec: bad ziplist entry header %#x", h)
		}
	}
	return out, nil
}

func intsetMembers(b []byte) ([][]byte, error) {
	if len(b) < 8 {
		return nil, errShort
	}
	w := int(binary.LittleEndian.Uint32(b))
	n := int(binary.LittleEndian.Uint32(b[4:]))
	if w != 2 && w != 4 && w != 8 {
		return nil, fmt.Errorf("refcodec: bad intset width %d", w)
	}
	if len(b) != 8+w*n {
		return nil, fmt.Errorf("refcodec: bad intset size")
	}
	var out [][]byte
	for i := 0; i < n; i++ {
		s := b[8+i*w:]
		var v int64
		switch w {
		case 2:
			v = int64(int16(binary.LittleEndian.Uint16(s)))
		case 4:
			v = int64(int32(binary.LittleEndian.Uint32(s)))
		default:
			v = int64(binary.LittleEndian.Uint64(s))
		}
		out = append(out, []byte(strconv.FormatInt(v, 10)))
	}
	return out, nil
}

func zipmapPairs(b []byte) ([]Pair, error) {
	r := &rd{b: b, i: 1}
	var out []Pair
	itemLen := func() (int, bool, error) {
		c, err := r.byte()
		if err != nil {
			return 0, false, err
		}
		if c == 0xFF {
			return 0, true, nil
		}
		if c == 0xFE {
			s, err := r.take(4)
			if err != nil {
				return 0, false, err
			}
			return int(binary.LittleEndian.Uint32(s)), false, nil
		}
		return int(c), false, nil
	}
	for {
		kl, end, err := itemLen()
		if err != nil {
			return nil, err
		}
		if end {
			break
		}
		k, err := r.take(kl)
		if err != nil {
			return nil, err
		}
		vl, end, err := itemLen()
		if err != nil || end {
			return nil, fmt.Errorf("refcodec: zipmap ends after a key")
		}
		free, err := r.byte()
		if err != nil {
			return nil, err
		}
		v, err := r.take(vl)
		if err != nil {
			return nil, err
		}
		if _, err := r.take(int(free)); err != nil {
			return nil, err
		}
		out = append(out, Pair{k, v})
	}
	return out, nil
}

func parseScore(s []byte) (float64, error) {
	return strconv.ParseFloat(string(s), 64)
}

// DecodeValue materialises value bytes of RDB type t into the logical value,
// the way a Redis server would. It returns the number of bytes consumed.
func DecodeValue(t int, val []byte) (*Value, int, error) {
	r := &rd{b: val}
	v := &Value{}
	switch t {
	case TString:
		s, err := r.str()
		if err != nil {
			return nil, 0, err
		}
		v.Kind, v.Str = KString, s
	case TList, TSet:
		n, err := r.plainLen()
		if err != nil {
			return nil, 0, err
		}
		var items [][]byte
		for i := uint64(0); i < n; i++ {
			s, err := r.str()
			if err != nil {
				return nil, 0, err
			}
			items = append(items, s)
		}
		if t == TList {
			v.Kind, v.List = KList, items
		} else {
			v.Kind, v.Set = KSet, items
		}
	case TZSet, TZSet2:
		n, err := r.plainLen()
		if err != nil {
			return nil, 0, err
		}
		v.Kind = KZSet
		for i := uint64(0); i < n; i++ {
			m, err := r.str()
			if err != nil {
				return nil, 0, err
			}
			var sc float64
			if t == TZSet2 {
				s, err := r.take(8)
				if err != nil {
					return nil, 0, err
				}
				sc = math.Float64frombits(binary.LittleEndian.Uint64(s))
			} else {
				c, err := r.byte()
				if err != nil {
					return nil, 0, err
				}
				switch c {
				case 253:
					sc = math.NaN()
				case 254:
					sc = math.Inf(1)
				case 255:
					sc = math.Inf(-1)
				default:
					s, err := r.take(int(c))
					if err != nil {
						return nil, 0, err
					}
					if sc, err = parseScore(s); err != nil {
						return nil, 0, err
					}
				}
			}
			v.ZSet = append(v.ZSet, ZPair{m, sc})
		}
	case THash:
		n, err := r.plainLen()
		if err != nil {
			return nil, 0, err
		}
		v.Kind = KHash
		for i := uint64(0); i < n; i++ {
			f, err := r.str()
			if err != nil {
				return nil, 0, err
			}
			x, err := r.str()
			if err != nil {
				return nil, 0, err
			}
			v.Hash = append(v.Hash, Pair{f, x})
		}
	case THashZipmap:
		s, err := r.str()
		if err != nil {
			return nil, 0, err
		}
		ps, err := zipmapPairs(s)
		if err != nil {
			return nil, 0, err
		}
		v.Kind, v.Hash = KHash, ps
	case TListZiplist, TZSetZiplist, THashZiplist:
		s, err := r.str()
		if err != nil {
			return nil, 0, err
		}
		es, err := ZiplistEntries(s)
		if err != nil {
			return nil, 0, err
		}
		switch t {
		case TListZiplist:
			v.Kind, v.List = KList, es
		case THashZiplist:
			if len(es)%2 != 0 {
				return nil, 0, fmt.Errorf("refcodec: odd hash ziplist")
			}
			v.Kind = KHash
			for i := 0; i < len(es); i += 2 {
				v.Hash = append(v.Hash, Pair{es[i], es[i+1]})
			}
		default:
			if len(es)%2 != 0 {
				return nil, 0, fmt.Errorf("refcodec: odd zset ziplist")
			}
			v.Kind = KZSet
			for i := 0; i < len(es); i += 2 {
				sc, err := parseScore(es[i+1])
				if err != nil {
					return nil, 0, err
				}
				v.ZSet = append(v.ZSet, ZPair{es[i], sc})
			}
		}
	case TSetIntset:
		s, err := r.str()
		if err != nil {
			return nil, 0, err
		}
		ms, err := intsetMembers(s)
		if err != nil {
			return nil, 0, err
		}
		v.Kind, v.Set = KSet, ms
	case TQuicklist:
		n, err := r.plainLen()
		if err != nil {
			return nil, 0, err
		}
		v.Kind = KList
		for i := uint64(0); i < n; i++ {
			s, err := r.str()
			if err != nil {
				return nil, 0, err
			}
			es, err := ZiplistEntries(s)
			if err != nil {
				return nil, 0, err
			}
			v.List = append(v.List, es...)
		}
	case TStream:
		if err := skipStream(r); err != nil {
			return nil, 0, err
		}
		v.Kind = KStream
		v.Stream = append([]byte(nil), val[:r.i]...)
	default:
		return nil, 0, fmt.Errorf("refcodec: unknown value type %d", t)
	}
	return v, r.i, nil
}

func skipStream(r *rd) error {
	n, err := r.plainLen()
	if err != nil {
		return err
	}
	for i := uint64(0); i < n; i++ {
		if _, err := r.str(); err != nil {
			return err
		}
		if _, err := r.str(); err != nil {
			return err
		}
	}
	for i := 0; i < 3; i++ {
		if _, err := r.plainLen(); err != nil {
			return err
		}
	}
	g, err := r.plainLen()
	if err != nil {
		return err
	}
	for i := uint64(0); i < g; i++ {
		if _, err := r.str(); err != nil {
			return err
		}
		if _, err := r.plainLen(); err != nil {
			return err
		}
		if _, err := r.plainLen(); err != nil {
			return err
		}
		p, err := r.plainLen()
		if err != nil {
			return err
		}
		for k := uint64(0); k < p; k++ {
			if _, err := r.take(24); err != nil {
				return err
			}
			if _, err := r.plainLen(); err != nil {
				return err
			}
		}
		cs, err := r.plainLen()
		if err != nil {
			return err
		}
		for k := uint64(0); k < cs; k++ {
			if _, err := r.str(); err != nil {
				return err
			}
			if _, err := r.take(8); err != nil {
				return err
			}
			q, err := r.plainLen()
			if err != nil {
				return err
			}
			if _, err := r.take(int(16 * q)); err != nil {
				return err
			}
		}
	}
	return nil
}

// Errors of DecodeDump, mirroring the two failure classes of Redis' RESTORE.
var (
	ErrDumpChecksum = errors.New("DUMP payload version or checksum are wrong")
	ErrDumpFormat   = errors.New("Bad data format")
)

// DecodeDump verifies the trailer (version <= maxVersion, CRC-64) and
// materialises the value; maxType is the highest value type the (modelled)
// server understands.
func DecodeDump(p []byte, maxVersion int, knownType func(t int) bool) (*Value, int, error) {
	if len(p) < 10 {
		return nil, 0, ErrDumpChecksum
	}
	foot := len(p) - 10
	ver := int(binary.LittleEndian.Uint16(p[foot:]))
	if ver > maxVersion {
		return nil, 0, ErrDumpChecksum
	}
	if CRC64(0, p[:len(p)-8]) != binary.LittleEndian.Uint64(p[len(p)-8:]) {
		return nil, 0, ErrDumpChecksum
	}
	if foot < 1 {
		return nil, 0, ErrDumpFormat
	}
	t := int(p[0])
	if knownType != nil && !knownType(t) {
		return nil, 0, ErrDumpFormat
	}
	v, n, err := DecodeValue(t, p[1:foot])
	if err != nil || n != foot-1 {
		return nil, 0, ErrDumpFormat
	}
	return v, t, nil
}

// ---- logical comparison -------------------------------------------------------

// Equal compares two logical values: strings and lists exactly (order), sets
// as sets, hashes as field->value maps, zsets as member->score maps (scores
// numerically, NaN equal to NaN, -0 equal to 0 as Redis compares them).
func Equal(a, b *Value) (bool, string) {
	if a == nil || b == nil {
		if a == b {
			return true, ""
		}
		return false, "one value is missing"
	}
	if a.Kind != b.Kind {
		return false, fmt.Sprintf("kind %v vs %v", a.Kind, b.Kind)
	}
	switch a.Kind {
	case KString:
		if !bytes.Equal(a.Str, b.Str) {
			return false, fmt.Sprintf("string %q vs %q", clip(a.Str), clip(b.Str))
		}
	case KList:
		if len(a.List) != len(b.List) {
			return false, fmt.Sprintf("list length %d vs %d", len(a.List), len(b.List))
		}
		for i := range a.List {
			if !bytes.Equal(a.List[i], b.List[i]) {
				return false, fmt.Sprintf("list[%d] %q vs %q", i, clip(a.List[i]), clip(b.List[i]))
			}
		}
	case KSet:
		am := map[string]int{}
		for _, x := range a.Set {
			am[string(x)]++
		}
		bm := map[string]int{}
		for _, x := range b.Set {
			bm[string(x)]++
		}
		if len(am) != len(bm) {
			return false, fmt.Sprintf("set cardinality %d vs %d", len(am), len(bm))
		}
		for k := range am {
			if bm[k] == 0 {
				return false, fmt.Sprintf("set member %q missing", clip([]byte(k)))
			}
		}
	case KHash:
		am := map[string]string{}
		for _, x := range a.Hash {
			am[string(x.F)] = string(x.V)
		}
		bm := map[string]string{}
		for _, x := range b.Hash {
			bm[string(x.F)] = string(x.V)
		}
		if len(am) != len(bm) {
			return false, fmt.Sprintf("hash size %d vs %d", len(am), len(bm))
		}
		for k, va := range am {
			vb, ok := bm[k]
			if !ok {
				return false, fmt.Sprintf("hash field %q missing", clip([]byte(k)))
			}
			if va != vb {
				return false, fmt.Sprintf("hash field %q: %q vs %q", clip([]byte(k)), clip([]byte(va)), clip([]byte(vb)))
			}
		}
	case KZSet:
		am := map[string]float64{}
		for _, x := range a.ZSet {
			am[string(x.M)] = x.S
		}
		bm := map[string]float64{}
		for _, x := range b.ZSet {
			bm[string(x.M)] = x.S
		}
		if len(am) != len(bm) {
			return false, fmt.Sprintf("zset cardinality %d vs %d", len(am), len(bm))
		}
		for k, sa := range am {
			sb, ok := bm[k]
			if !ok {
				return false, fmt.Sprintf("zset member %q missing", clip([]byte(k)))
			}
			if !(sa == sb || (math.IsNaN(sa) && math.IsNaN(sb))) {
				return false, fmt.Sprintf("zset member %q: score %v vs %v", clip([]byte(k)), sa, sb)
			}
		}
	case KStream:
		if !bytes.Equal(a.Stream, b.Stream) {
			return false, "stream bytes differ"
		}
	}
	return true, ""
}

func clip(b []byte) []byte {
	if len(b) > 40 {
		return append(append([]byte(nil), b[:40]...), "..."...)
	}
	return b
}
