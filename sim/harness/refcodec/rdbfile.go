package refcodec

import (
	"encoding/binary"
	"fmt"
)

// Item is one element of an RDB file body, in file order.
type Item struct {
	Kind string // key | aux | resizedb | selectdb | moduleaux

	// key
	Key      []byte
	Val      *Value
	Type     int
	ExpireMs uint64 // 0 = none
	ExpireS  bool   // use the seconds opcode (ExpireMs must be a multiple of 1000)
	HasIdle  bool
	Idle     uint64
	HasFreq  bool
	Freq     byte

	// aux
	AuxKey, AuxVal []byte

	// resizedb
	DBSize, ExpSize uint64

	// selectdb
	DB uint64

	// moduleaux
	ModuleID uint64
	ModOps   []ModOp
}

// ModOp is one opcode/value pair of a module aux record.
type ModOp struct {
	Op  int // 1 sint, 2 uint, 3 float, 4 double, 5 string
	U   uint64
	F32 uint32
	F64 uint64
	S   []byte
}

// Record is what a correct parser must deliver for one stored key (or Lua script).
type Record struct {
	DB       uint32
	Key      []byte
	Type     byte
	ExpireAt uint64
	Idle     uint32
	Freq     uint8
	ValStart int // byte range of the serialized value inside the file
	ValEnd   int
	Lua      bool
	LuaBody  []byte
	Val      *Value
}

// WriteRDB serialises items as an RDB file of the given version and returns the
// file plus the records a parser must yield, in order.
func WriteRDB(version int, items []Item, c Chooser, withChecksum bool) ([]byte, []Record) {
	b := []byte(fmt.Sprintf("REDIS%04d", version))
	var recs []Record
	db := uint32(0)
	for _, it := range items {
		switch it.Kind {
		case "selectdb":
			b = append(b, 0xFE)
			b = AppendLen(b, it.DB, c.Choose(3))
			db = uint32(it.DB)
		case "resizedb":
			b = append(b, 0xFB)
			b = AppendLen(b, it.DBSize, c.Choose(3))
			b = AppendLen(b, it.ExpSize, c.Choose(3))
		case "aux":
			b = append(b, 0xFA)
			b = AppendString(b, it.AuxKey, noInt{c})
			b = AppendString(b, it.AuxVal, c)
			if string(it.AuxKey) == "lua" {
				recs = append(recs, Record{DB: db, Key: []byte("lua"), Type: 0xFA, Lua: true, LuaBody: it.AuxVal})
			}
		case "moduleaux":
			b = append(b, 0xF7)
			b = AppendLen(b, it.ModuleID, 0)
			for _, op := range it.ModOps {
				b = AppendLen(b, uint64(op.Op), c.Choose(2))
				switch op.Op {
				case 1, 2:
					b = AppendLen(b, op.U, c.Choose(2))
				case 3:
					var x [4]byte
					binary.LittleEndian.PutUint32(x[:], op.F32)
					b = append(b, x[:]...)
				case 4:
					var x [8]byte
					binary.LittleEndian.PutUint64(x[:], op.F64)
					b = append(b, x[:]...)
				case 5:
					b = AppendString(b, op.S, c)
				}
			}
			b = AppendLen(b, 0, 0) // EOF opcode
		case "key":
			if it.ExpireMs != 0 {
				if it.ExpireS {
					var x [4]byte
					binary.LittleEndian.PutUint32(x[:], uint32(it.ExpireMs/1000))
					b = append(append(b, 0xFD), x[:]...)
				} else {
					var x [8]byte
					binary.LittleEndian.PutUint64(x[:], it.ExpireMs)
					b = append(append(b, 0xFC), x[:]...)
				}
			}
			if it.HasIdle {
				b = append(b, 0xF8)
				b = AppendLen(b, it.Idle, c.Choose(2))
			}
			if it.HasFreq {
				b = append(b, 0xF9, it.Freq)
			}
			b = append(b, byte(it.Type))
			b = AppendString(b, it.Key, c)
			start := len(b)
			b = append(b, EncodeValue(it.Val, it.Type, c)...)
			r := Record{DB: db, Key: it.Key, Type: byte(it.Type), ExpireAt: it.ExpireMs, ValStart: start, ValEnd: len(b), Val: it.Val}
			if it.HasIdle {
				r.Idle = uint32(it.Idle)
			}
			if it.HasFreq {
				r.Freq = it.Freq
			}
			recs = append(recs, r)
		default:
			panic("WriteRDB: item kind " + it.Kind)
		}
	}
	b = append(b, 0xFF)
	var x [8]byte
	if withChecksum {
		binary.LittleEndian.PutUint64(x[:], CRC64(0, b))
	}
	b = append(b, x[:]...)
	return b, recs
}

// noInt forwards choices but is used for strings that must not be
// integer-encoded to stay recognisable (aux keys): harmless, since "lua" is
// not an integer anyway.
type noInt struct{ c Chooser }

func (n noInt) Choose(k int) int { return n.c.Choose(k) }
