package selftest

import (
	"fmt"
	"sync"
	"testing"
	"time"

	. "github.com/alibaba/RedisShake/pkg/simrt"
	"github.com/alibaba/RedisShake/pkg/simrt/tape"
)

// toy system: producer -> chan -> consumer, ticker, mutex, cond, forever-blocked task
func toy(s *Sim, out *[]string) {
	p := s.NewProc("toy")
	var mu sync.Mutex
	cond := sync.NewCond(&mu)
	ch := make(chan int)
	bch := make(chan int, 2)
	stuck := make(chan int)
	queue := 0
	done := make(chan struct{})
	s.GoProc(p, "main", func() {
		Go("prod", func() {
			for i := 0; i < 5; i++ {
				Pre("send")
				ch <- i
				Post()
				Pre("bsend")
				bch <- i
				Post()
			}
			close(ch)
		})
		Go("cons", func() {
			Pre("range")
			for v := range ch {
				Post()
				s.Logf("got %d at %v", v, s.Now())
				Lock(&mu, "x")
				queue++
				CondSignal(cond)
				Unlock(&mu)
				Pre("range")
			}
			Post()
		})
		Go("bcons", func() {
			tk := time.NewTicker(300 * time.Millisecond)
			n := 0
			for n < 5 {
				var r int
				i := Select("sel", 2, false, func(i int) bool {
					switch i {
					case 0:
						select {
						case r = <-bch:
							return true
						default:
							return false
						}
					case 1:
						select {
						case <-tk.C:
							return true
						default:
							return false
						}
					}
					return false
				}, func() int {
					select {
					case r = <-bch:
						return 0
					case <-tk.C:
						return 1
					}
				})
				if i == 0 {
					n++
					s.Logf("b got %d", r)
					Sleep(200*time.Millisecond, "sl")
				} else {
					s.Logf("tick at %v", s.Now())
				}
			}
		})
		Go("condw", func() {
			Lock(&mu, "y")
			for queue < 5 {
				CondWait(cond, "cw")
			}
			Unlock(&mu)
			s.Logf("cond done")
			close(done)
		})
		Go("stuck", func() {
			Pre("stuck")
			<-stuck
			Post()
		})
	})
	Pre("waitdone")
	<-done
	Post()
	s.Sleep(3 * time.Second)
	*out = append(*out, s.Log...)
}

func TestSelfDeterminism(t *testing.T) {
	distinct := map[uint64]bool{}
	for seed := uint64(1); seed <= 200; seed++ {
		var h [2]uint64
		var logs [2][]string
		var tapes [2][]uint32
		for r := 0; r < 2; r++ {
			var tp *tape.Tape
			if r == 0 {
				tp = tape.New(seed, 0)
			} else {
				tp = tape.Replay(tapes[0])
			}
			var out []string
			s := Run(t, tp, Config{StallPerMille: 50, Trace: true}, func(s *Sim) { toy(s, &out) })
			h[r] = s.Hash()
			logs[r] = s.TraceLines()
			tapes[r] = tp.Vals
			if s.EndReason != "stop" {
				t.Fatalf("seed %d end %s %v", seed, s.EndReason, s.TaskStates())
			}
			if s.Leaked < 1 || s.Leaked > 3 {
				t.Fatalf("seed %d leaked %d %v", seed, s.Leaked, s.TaskStates())
			}
		}
		if h[0] != h[1] || fmt.Sprint(logs[0]) != fmt.Sprint(logs[1]) {
			t.Fatalf("seed %d nondeterministic:\n%v\n%v", seed, logs[0], logs[1])
		}
		distinct[h[0]] = true
	}
	t.Logf("distinct traces: %d/200", len(distinct))
	if len(distinct) < 150 {
		t.Fatalf("too few distinct schedules")
	}
}
