#!/bin/bash
# usage: ingest_seeded.sh <Cxx> <bugN> <name> [check-id ...]  -- copy an agent result into seeded/<name> and judge it
ID="$1"; B="$2"; NAME="$3"; shift 3
CHECKS="$@"; [ -n "$CHECKS" ] || CHECKS="$ID"
D=/verif/seeded/$NAME
SRC="${INGEST_FROM:-/tmp/agents/out-$ID}"
mkdir -p "$D" && cp "$SRC"/$B/* "$D/" || exit 3
for c in $CHECKS; do
  out=$(/verif/tools/try_seeded.sh "$D" "$c" 2>&1)
  rc=$(echo "$out" | grep -a "try_seeded:" | sed 's/.*exit //')
  echo "$NAME on $c -> exit $rc :: $(echo "$out" | grep -a "violation class" | head -3 | cut -c1-150 | tr '\n' '|')"
done
