module verif/driver

go 1.26
