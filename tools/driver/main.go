// driver runs one property check end to end: scratch copy of /repo/src,
// instrumentation, worker build, determinism self-check, seeded sweep over
// worker processes, minimisation and fresh-process replay of violations,
// known-findings matching, evidence file. See DESIGN.md §3.
//
// exit 0: property held on everything explored (known findings are printed)
// exit 1: a violation not listed in known_findings.json (VIOLATION line)
// exit 2: the machinery itself is in trouble
package main

import (
	"bufio"
	"bytes"
	"encoding/json"
	"flag"
	"fmt"
	"os"
	"os/exec"
	"path/filepath"
	"runtime"
	"sort"
	"strconv"
	"strings"
	"sync"
	"time"
)

type Viol struct {
	Run       uint64 `json:"run"`
	Signature string `json:"signature"`
	Detail    string `json:"detail"`
	TapeFile  string `json:"tape_file"`
	TapeLen   int    `json:"tape_len"`
}

type ReplayResult struct {
	Signature string   `json:"signature"`
	Detail    string   `json:"detail"`
	EventHash string   `json:"event_hash"`
	TapeLen   int      `json:"tape_len"`
	Execs     int      `json:"execs"`
	OutFile   string   `json:"out_file"`
	Trace     []string `json:"trace"`
}

type Summary struct {
	Prop        string                 `json:"prop"`
	Runs        int                    `json:"runs"`
	From        uint64                 `json:"from"`
	Keys        []uint64               `json:"keys"`
	NontrivKeys []uint64               `json:"nontrivial_keys"`
	Probes      map[string]int         `json:"probes"`
	Faults      map[string]int         `json:"faults"`
	Extra       map[string]int         `json:"extra"`
	Subs        map[string]int         `json:"subs"`
	SimTimeMs   int64                  `json:"sim_time_ms"`
	Steps       int64                  `json:"steps"`
	Samples     []interface{}          `json:"samples"`
	Violations  []Viol                 `json:"violations"`
	Hashes      map[string]string      `json:"hashes"`
	WallMs      int64                  `json:"wall_ms"`
	Replay      *ReplayResult          `json:"replay"`
	Info        map[string]interface{} `json:"info"`
}

type Finding struct {
	Property  string `json:"property"`
	Status    string `json:"status"` // known | fixed
	Signature string `json:"signature"`
	Commit    string `json:"commit,omitempty"`
	Text      string `json:"text"`
}

var (
	verifDir string
	scratch  string
	goEnv    []string
)

func die(code int, format string, args ...interface{}) {
	fmt.Fprintf(os.Stderr, "driver: "+format+"\n", args...)
	cleanup()
	os.Exit(code)
}

func cleanup() {
	if scratch != "" && os.Getenv("VERIF_KEEP_SCRATCH") == "" {
		os.RemoveAll(scratch)
	}
}

func run(dir string, env []string, name string, args ...string) (string, error) {
	cmd := exec.Command(name, args...)
	cmd.Dir = dir
	cmd.Env = append(os.Environ(), env...)
	var out bytes.Buffer
	cmd.Stdout = &out
	cmd.Stderr = &out
	err := cmd.Run()
	return out.String(), err
}

// boundedOut keeps the worker's VSIM lines in full and only the last part of everything else: code under test
// may print without bound (a mutated RDB can make a loader log every record), and the driver must not grow with it.
type boundedOut struct {
	mu      sync.Mutex
	keep    bytes.Buffer // complete VSIM lines
	other   []byte       // tail of the rest
	partial []byte       // current unfinished line
	dropped int64
}

const boundedTail = 256 << 10

func (b *boundedOut) Write(p []byte) (int, error) {
	b.mu.Lock()
	defer b.mu.Unlock()
	n := len(p)
	for len(p) > 0 {
		i := bytes.IndexByte(p, '\n')
		if i < 0 {
			b.addPartial(p)
			break
		}
		b.addPartial(p[:i+1])
		b.endLine()
		p = p[i+1:]
	}
	return n, nil
}

func (b *boundedOut) addPartial(p []byte) {
	// a VSIM line is kept whole whatever its length; any other line is clipped
	if len(b.partial) < 4 || bytes.HasPrefix(b.partial, []byte("VSIM")) || len(b.partial)+len(p) <= 8192 {
		b.partial = append(b.partial, p...)
		return
	}
	b.dropped += int64(len(p))
	if p[len(p)-1] == '\n' {
		b.partial = append(b.partial, '\n')
	}
}

func (b *boundedOut) endLine() {
	if bytes.HasPrefix(b.partial, []byte("VSIM")) {
		b.keep.Write(b.partial)
	} else {
		b.other = append(b.other, b.partial...)
		if len(b.other) > 2*boundedTail {
			b.dropped += int64(len(b.other) - boundedTail)
			b.other = append([]byte(nil), b.other[len(b.other)-boundedTail:]...)
		}
	}
	b.partial = b.partial[:0]
}

func (b *boundedOut) flush() {
	b.mu.Lock()
	defer b.mu.Unlock()
	if len(b.partial) > 0 {
		b.partial = append(b.partial, '\n')
		b.endLine()
	}
}

func (b *boundedOut) Bytes() []byte {
	b.mu.Lock()
	defer b.mu.Unlock()
	r := append([]byte(nil), b.other...)
	return append(r, b.keep.Bytes()...)
}

func (b *boundedOut) String() string { return string(b.Bytes()) }

// worker runs the test binary once and parses its VSIM summary line.
func worker(env []string, timeout time.Duration) (*Summary, string, error) {
	cmd := exec.Command(filepath.Join(scratch, "worker.test"), "-test.run", "^TestWorker$", "-test.timeout", "0")
	cmd.Dir = scratch
	cmd.Env = append(os.Environ(), env...)
	out := &boundedOut{}
	cmd.Stdout = out
	cmd.Stderr = out
	if err := cmd.Start(); err != nil {
		return nil, "", err
	}
	done := make(chan error, 1)
	go func() { done <- cmd.Wait() }()
	var err error
	select {
	case err = <-done:
	case <-time.After(timeout):
		cmd.Process.Kill()
		<-done
		return nil, tail(out.String(), 4000), fmt.Errorf("worker watchdog fired after %v", timeout)
	}
	out.flush()
	sc := bufio.NewScanner(bytes.NewReader(out.Bytes()))
	sc.Buffer(make([]byte, 1<<20), 1<<30)
	for sc.Scan() {
		line := sc.Text()
		if strings.HasPrefix(line, "VSIM ") {
			s := &Summary{}
			if e := json.Unmarshal([]byte(line[5:]), s); e != nil {
				return nil, tail(out.String(), 4000), e
			}
			return s, "", nil
		}
		if strings.HasPrefix(line, "VSIM-ERROR") {
			return nil, line, fmt.Errorf("%s", line)
		}
	}
	if err == nil {
		err = fmt.Errorf("worker produced no summary")
	}
	return nil, tail(out.String(), 6000), err
}

func tail(s string, n int) string {
	if len(s) > n {
		return "..." + s[len(s)-n:]
	}
	return s
}

func loadFindings() []Finding {
	b, err := os.ReadFile(filepath.Join(verifDir, "known_findings.json"))
	if err != nil {
		return nil
	}
	var fs []Finding
	if err := json.Unmarshal(b, &fs); err != nil {
		die(2, "known_findings.json: %v", err)
	}
	return fs
}

func main() {
	prop := flag.String("prop", "", "property id")
	tier := flag.String("tier", "quick", "quick|thorough")
	replay := flag.String("replay", "", "replay file")
	flag.Parse()
	if *prop == "" {
		fmt.Fprintln(os.Stderr, "usage: driver -prop Cxx [-tier quick|thorough] [-replay file]")
		os.Exit(2)
	}
	if t := os.Getenv("VERIF_TIER"); t != "" && *replay == "" {
		*tier = t
	}
	if *tier != "quick" && *tier != "thorough" {
		die(2, "bad tier %q", *tier)
	}
	exe, _ := os.Executable()
	verifDir = filepath.Dir(filepath.Dir(exe))
	if v := os.Getenv("VERIF_DIR"); v != "" {
		verifDir = v
	}
	seed := uint64(1)
	if v := os.Getenv("VERIF_SEED"); v != "" {
		n, err := strconv.ParseUint(v, 10, 64)
		if err != nil {
			// negative or odd seeds: hash them
			var h uint64 = 1469598103934665603
			for i := 0; i < len(v); i++ {
				h = (h ^ uint64(v[i])) * 1099511628211
			}
			n = h
		}
		seed = n
	}
	start := time.Now()
	goEnv = []string{"GOFLAGS=-mod=mod", "GOPROXY=off", "GOSUMDB=off", "GOTOOLCHAIN=local", "GONOSUMDB=*", "GONOSUMCHECK=1"}
	tmp := os.Getenv("TMPDIR")
	if tmp == "" {
		tmp = "/tmp"
	}
	scratch = filepath.Join(tmp, fmt.Sprintf("verif-%s-%d", *prop, os.Getpid()))
	defer cleanup()

	// ---- 1. scratch copy, instrumentation, build
	if out, err := run(verifDir, goEnv, filepath.Join(verifDir, "tools", "mkscratch.sh"), scratch); err != nil {
		die(2, "mkscratch failed: %v\n%s", err, out)
	}
	instOut, err := run(scratch, goEnv, filepath.Join(verifDir, "bin", "instrument"), "-dir", filepath.Join(scratch, "src"))
	if err != nil {
		die(2, "instrumentation failed (a construct in /repo/src has no rewrite rule, or the tree does not type-check):\n%s", instOut)
	}
	instStats := map[string]int{}
	for _, l := range strings.Split(instOut, "\n") {
		if strings.HasPrefix(l, "{") {
			json.Unmarshal([]byte(l), &instStats)
		}
	}
	if out, err := run(filepath.Join(scratch, "sim"), goEnv, "go1.26.8", "test", "-c", "-o", filepath.Join(scratch, "worker.test"), "./worker"); err != nil {
		die(2, "building the worker failed:\n%s", tail(out, 8000))
	}
	buildS := time.Since(start).Seconds()

	findings := loadFindings()
	var knownSigs []string
	for _, f := range findings {
		if f.Property == *prop && f.Status == "known" {
			knownSigs = append(knownSigs, f.Signature)
		}
	}
	base := []string{"VSIM_KNOWN=" + strings.Join(knownSigs, "\n"), "VSIM_PROP=" + *prop, "VSIM_TIER=" + *tier, "VSIM_SEED=" + strconv.FormatUint(seed, 10), "VSIM_OUT=" + scratch}
	replayDir := filepath.Join(verifDir, "replays")
	evidenceDir := filepath.Join(verifDir, "evidence")
	if os.Getenv("VERIF_NO_EVIDENCE") != "" {
		// used when judging a seeded change: leave committed evidence and replays alone
		replayDir = filepath.Join(tmp, "verif-seeded-replays")
		evidenceDir = filepath.Join(tmp, "verif-seeded-evidence")
	}
	os.MkdirAll(replayDir, 0755)

	// ---- replay mode
	if *replay != "" {
		abs, _ := filepath.Abs(*replay)
		s, out, err := worker(append(base[:2:2], "VSIM_MODE=replay", "VSIM_TAPE="+abs, "VSIM_TRACE=1"), 30*time.Minute)
		if err != nil {
			die(2, "replay failed: %v\n%s", err, out)
		}
		fmt.Printf("replay: signature=%q event_hash=%s tape_len=%d\n", s.Replay.Signature, s.Replay.EventHash, s.Replay.TapeLen)
		if s.Replay.Detail != "" {
			fmt.Printf("detail: %s\n", s.Replay.Detail)
		}
		for _, l := range s.Replay.Trace {
			fmt.Printf("  | %s\n", l)
		}
		if s.Replay.Signature == "" {
			fmt.Println("replay: no violation")
			cleanup()
			os.Exit(0)
		}
		if f := matchFinding(findings, *prop, s.Replay.Signature); f != nil {
			fmt.Printf("KNOWN-FINDING: property=%s %s [%s]\n", *prop, f.Text, f.Signature)
			cleanup()
			os.Exit(0)
		}
		fmt.Printf("VIOLATION property=%s replay=%s\n", *prop, abs)
		cleanup()
		os.Exit(1)
	}

	// ---- 2. property metadata
	info, out, err := worker(append(base, "VSIM_MODE=info"), time.Minute)
	if err != nil {
		die(2, "worker info failed: %v\n%s", err, out)
	}
	quickRuns := int(info.Info["quick_runs"].(float64))
	perProc := int(info.Info["per_process"].(float64))
	if quickRuns == 0 {
		quickRuns = 2000
	}

	// ---- 3. determinism self-check: same tapes, three processes, GOMAXPROCS 1/4/16
	detRuns := 10
	if *tier == "thorough" {
		detRuns = 40
	}
	var detHashes [3]map[string]string
	var wg sync.WaitGroup
	var detErr [3]error
	var detOut [3]string
	for i, mp := range []string{"1", "4", "16"} {
		wg.Add(1)
		go func(i int, mp string) {
			defer wg.Done()
			// the third process starts in the middle of the range: a run must not depend on the runs before it
			from, n := 0, detRuns
			if i == 2 {
				from, n = detRuns/2, detRuns-detRuns/2
			}
			s, out, err := worker(append(base, "VSIM_MODE=hash", "VSIM_FROM="+strconv.Itoa(from), "VSIM_N="+strconv.Itoa(n), "GOMAXPROCS="+mp, "VSIM_OUT="), 20*time.Minute)
			if err != nil {
				detErr[i], detOut[i] = err, out
				return
			}
			detHashes[i] = s.Hashes
		}(i, mp)
	}
	wg.Wait()
	for i := range detErr {
		if detErr[i] != nil {
			die(2, "determinism self-check worker failed: %v\n%s", detErr[i], detOut[i])
		}
	}
	for k, v := range detHashes[0] {
		v2, in2 := detHashes[2][k]
		if detHashes[1][k] != v || (in2 && v2 != v) {
			die(2, "determinism self-check FAILED for run %s: %s / %s / %s (GOMAXPROCS 1/4/16; the third process starts mid-range)", k, v, detHashes[1][k], v2)
		}
	}

	// ---- 4. sweep
	budget := 75 * time.Second
	if *tier == "thorough" {
		budget = 900 * time.Second
		if v := os.Getenv("VERIF_BUDGET_S"); v != "" {
			if n, err := strconv.Atoi(v); err == nil {
				budget = time.Duration(n) * time.Second
			}
		}
	} else if v := os.Getenv("VERIF_QUICK_BUDGET_S"); v != "" {
		if n, err := strconv.Atoi(v); err == nil {
			budget = time.Duration(n) * time.Second
		}
	}
	targetRuns := quickRuns
	if *tier == "thorough" {
		targetRuns = 1 << 40
	}
	nw := runtime.NumCPU()
	if nw > 16 {
		nw = 16
	}
	if v := os.Getenv("VERIF_WORKERS"); v != "" {
		if n, err := strconv.Atoi(v); err == nil && n > 0 {
			nw = n
		}
	}
	sweepStart := time.Now()
	sweepDeadline := sweepStart.Add(budget)
	var mu sync.Mutex
	next := uint64(0)
	total := &Summary{Probes: map[string]int{}, Faults: map[string]int{}, Extra: map[string]int{}, Subs: map[string]int{}}
	keys := map[uint64]bool{}
	ntKeys := map[uint64]bool{}
	var viols []Viol
	var werr error
	var werrOut string
	chunk := perProc
	if *tier == "quick" && quickRuns/nw < chunk {
		chunk = quickRuns/nw + 1
	}
	for w := 0; w < nw; w++ {
		wg.Add(1)
		go func() {
			defer wg.Done()
			for {
				mu.Lock()
				nUnlisted := 0
				for _, v := range viols {
					if matchFinding(findings, *prop, v.Signature) == nil {
						nUnlisted++
					}
				}
				if werr != nil || int(next) >= targetRuns || time.Now().After(sweepDeadline) || nUnlisted >= 40 {
					mu.Unlock()
					return
				}
				from := next
				n := chunk
				if int(next)+n > targetRuns {
					n = targetRuns - int(next)
				}
				next += uint64(n)
				mu.Unlock()
				left := time.Until(sweepDeadline)
				s, out, err := worker(append(base, "VSIM_MODE=gen", "VSIM_FROM="+strconv.FormatUint(from, 10), "VSIM_N="+strconv.Itoa(n),
					"VSIM_BUDGET_MS="+strconv.FormatInt(left.Milliseconds()+1000, 10)), left+4*time.Minute)
				mu.Lock()
				if err != nil {
					if werr == nil {
						werr, werrOut = err, out
					}
					mu.Unlock()
					return
				}
				total.Runs += s.Runs
				total.SimTimeMs += s.SimTimeMs
				total.Steps += s.Steps
				for k, v := range s.Probes {
					total.Probes[k] += v
				}
				for k, v := range s.Faults {
					total.Faults[k] += v
				}
				for k, v := range s.Extra {
					total.Extra[k] += v
				}
				for k, v := range s.Subs {
					total.Subs[k] += v
				}
				for _, k := range s.Keys {
					keys[k] = true
				}
				for _, k := range s.NontrivKeys {
					ntKeys[k] = true
				}
				if len(total.Samples) < 3 {
					total.Samples = append(total.Samples, s.Samples...)
				}
				viols = append(viols, s.Violations...)
				mu.Unlock()
			}
		}()
	}
	wg.Wait()
	if werr != nil {
		die(2, "worker failed: %v\n%s", werr, werrOut)
	}
	sweepS := time.Since(sweepStart).Seconds()

	// ---- 5. violations: group by signature, minimise, replay in a fresh process
	sort.Slice(viols, func(i, j int) bool {
		if viols[i].TapeLen != viols[j].TapeLen {
			return viols[i].TapeLen < viols[j].TapeLen
		}
		return viols[i].Run < viols[j].Run
	})
	bySig := map[string][]Viol{}
	var sigs []string
	for _, v := range viols {
		if _, ok := bySig[v.Signature]; !ok {
			sigs = append(sigs, v.Signature)
		}
		bySig[v.Signature] = append(bySig[v.Signature], v)
	}
	sort.Strings(sigs)
	unlisted := 0
	var knownSeen []string
	var reportLines []string
	exit := 0
	for _, sig := range sigs {
		v := bySig[sig][0]
		if f := matchFinding(findings, *prop, sig); f != nil {
			line := fmt.Sprintf("KNOWN-FINDING: property=%s %s [signature %s; seen in %d run(s), e.g. run %d]", *prop, f.Text, sig, len(bySig[sig]), v.Run)
			reportLines = append(reportLines, line)
			knownSeen = append(knownSeen, sig)
			continue
		}
		unlisted++
		if unlisted > 4 {
			reportLines = append(reportLines, fmt.Sprintf("(further unlisted violation class not minimised: %s, run %d: %s)", sig, v.Run, v.Detail))
			continue
		}
		final := filepath.Join(replayDir, fmt.Sprintf("%s-%d-%d.json", *prop, seed, v.Run))
		shrinkMs := "90000"
		if v := os.Getenv("VERIF_SHRINK_MS"); v != "" {
			shrinkMs = v // e.g. 3000 when judging many seeded changes in a row (the verdict does not depend on minimisation)
		}
		s, out, err := worker(append(base, "VSIM_MODE=shrink", "VSIM_TAPE="+v.TapeFile, "VSIM_REPLAY_OUT="+final, "VSIM_BUDGET_MS="+shrinkMs), 20*time.Minute)
		minimised := true
		if err != nil || s.Replay == nil || s.Replay.Signature != sig {
			// fall back to the unminimised tape
			minimised = false
			fmt.Fprintf(os.Stderr, "driver: minimisation of %s failed (%v), keeping the original tape\n%s\n", sig, err, out)
			b, _ := os.ReadFile(v.TapeFile)
			os.WriteFile(final, b, 0644)
		}
		// replay in a fresh process
		rs, rout, rerr := worker(append(base[:2:2], "VSIM_MODE=replay", "VSIM_TAPE="+final), 20*time.Minute)
		exact := "fresh-process replay reproduced it exactly"
		if rerr != nil || rs.Replay == nil {
			die(2, "replay of %s failed: %v\n%s", final, rerr, rout)
		}
		if rs.Replay.Signature != sig {
			die(2, "replay of %s is not deterministic: got signature %q, want %q", final, rs.Replay.Signature, sig)
		}
		if minimised && s.Replay.EventHash != rs.Replay.EventHash {
			die(2, "replay of %s is not exact: same violation but a different event hash (%s vs %s) - some state leaks between runs or a source of nondeterminism is not behind a seam", final, s.Replay.EventHash, rs.Replay.EventHash)
		}
		reportLines = append(reportLines, fmt.Sprintf("violation class %q (%d run(s)); minimised=%v tape_len=%d; %s\n  detail: %s", sig, len(bySig[sig]), minimised, rs.Replay.TapeLen, exact, rs.Replay.Detail))
		reportLines = append(reportLines, fmt.Sprintf("VIOLATION property=%s replay=%s", *prop, final))
		exit = 1
	}

	// ---- 6. evidence
	wall := time.Since(start).Seconds()
	var zeroProbes []string
	if pn, ok := info.Info["probe_names"].([]interface{}); ok {
		for _, p := range pn {
			if total.Probes[p.(string)] == 0 {
				zeroProbes = append(zeroProbes, p.(string))
			}
		}
	}
	dn := len(ntKeys)
	ev := map[string]interface{}{
		"property_id": *prop,
		"tier":        *tier,
		"seed":        seed,
		"level":       info.Info["level"],
		"coverage": map[string]interface{}{
			"evaluations":         total.Runs,
			"distinct_nontrivial": dn,
			"distinct_cases":      len(keys),
			"rule":                info.Info["rule"],
			"samples":             total.Samples,
			"runs_per_hour":       int(float64(total.Runs) / sweepS * 3600),
			"simulated_time_s":    float64(total.SimTimeMs) / 1000,
			"scheduler_steps":     total.Steps,
			"faults_fired":        total.Faults,
			"probes":              total.Probes,
			"probes_at_zero":      zeroProbes,
			"sub_scenarios":       total.Subs,
			"counters":            total.Extra,
			"workers":             nw,
			"instrumentation":     instStats,
			"real_vs_stub":        info.Info["real_vs_stub"],
			"determinism_check":   fmt.Sprintf("%d tapes x 3 fresh processes (GOMAXPROCS 1/4/16, the third starting mid-range): identical case hashes and verdicts", detRuns),
			"known_findings_seen": knownSeen,
			"unlisted_violation_classes": unlisted,
			"build_s":             buildS,
			"sweep_s":             sweepS,
		},
		"assumptions": info.Info["assumptions"],
		"wall_s":      wall,
		"violations":  unlisted,
	}
	if total.Runs == 0 {
		die(2, "no run was executed")
	}
	eb, _ := json.MarshalIndent(ev, "", " ")
	os.MkdirAll(evidenceDir, 0755)
	if err := os.WriteFile(filepath.Join(evidenceDir, *prop+".json"), append(eb, '\n'), 0644); err != nil {
		die(2, "writing evidence: %v", err)
	}
	fmt.Printf("%s %s: %d runs in %.1fs (+%.1fs build), %d distinct non-trivial cases, %d workers, seed %d\n", *prop, *tier, total.Runs, sweepS, buildS, dn, nw, seed)
	if len(zeroProbes) > 0 {
		fmt.Printf("warning: probes never hit: %v\n", zeroProbes)
	}
	for _, l := range reportLines {
		fmt.Println(l)
	}
	if dn < 2 && exit == 0 {
		// a pass that explored nothing is no pass; a violation that was found and replayed stands on its own
		die(2, "fewer than 2 distinct non-trivial cases explored")
	}
	cleanup()
	os.Exit(exit)
}

func matchFinding(fs []Finding, prop, sig string) *Finding {
	for i := range fs {
		f := &fs[i]
		if f.Property == prop && f.Status == "known" && f.Signature == sig {
			return f
		}
	}
	return nil
}
