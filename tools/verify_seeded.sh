#!/bin/bash
# usage: verify_seeded.sh <seeded-dir>
# Confirms an agent-produced seeded change in a fresh scratch worktree:
#  demo passes without the patch; patch applies; tree builds; baseline ./pkg tests pass; demo fails with the patch.
set -u
D="$(cd "$1" && pwd)"
export GOFLAGS=-mod=mod GOPROXY=off GOSUMDB=off GOTOOLCHAIN=local
WT="$(mktemp -d /tmp/verify-seeded-XXXXXX)"
rmdir "$WT"
git -C /repo worktree add -q --detach "$WT" HEAD || exit 3
trap 'git -C /repo worktree remove --force "$WT" >/dev/null 2>&1' EXIT
copy_to=$(jq -r '.demo.copy_to' "$D/meta.json"); demo=$(jq -r '.demo.file' "$D/meta.json"); runcmd=$(jq -r '.demo.run' "$D/meta.json")
demo_base=$(basename "$demo")
cp "$D/$demo_base" "$WT/$copy_to/" || exit 3
# normalise the run command: replace the agent's worktree path by ours
runcmd=$(echo "$runcmd" | sed -E "s#/tmp/agents/wt-C[0-9]+#$WT#g")
echo "== demo without patch: $runcmd"
( cd "$WT" && bash -c "$runcmd" ) > "$WT/.demo0.log" 2>&1; r0=$?
tail -3 "$WT/.demo0.log"
( cd "$WT" && git apply "$D/patch.diff" ) || { echo "PATCH DOES NOT APPLY"; exit 3; }
echo "== build with patch"
( cd "$WT/src" && go build ./pkg/... ./redis-shake/common/... ./redis-shake/dbSync/... ./redis-shake/checkpoint/... ./redis-shake/filter/... ./redis-shake/scanner/... ./redis-shake/metric/... ./redis-shake/ ) ; rb=$?
echo "== baseline tests with patch (demo moved away)"
mv "$WT/$copy_to/$demo_base" "$WT/.demo_test.keep"
( cd "$WT/src" && go test -vet=off -count=1 ./pkg/... 2>&1 | grep -v "^ok\|no test files" | grep -v "cupcake/rdb" | head -20 ) > "$WT/.base.log"; cat "$WT/.base.log"
rt=0; grep -q "FAIL" "$WT/.base.log" && rt=1
mv "$WT/.demo_test.keep" "$WT/$copy_to/$demo_base"
echo "== demo with patch"
( cd "$WT" && bash -c "$runcmd" ) > "$WT/.demo1.log" 2>&1; r1=$?
tail -5 "$WT/.demo1.log"
echo "RESULT demo_without_patch_exit=$r0 build_exit=$rb baseline_fail=$rt demo_with_patch_exit=$r1"
if [ $r0 -eq 0 ] && [ $rb -eq 0 ] && [ $rt -eq 0 ] && [ $r1 -ne 0 ]; then echo "CONFIRMED"; exit 0; fi
echo "NOT CONFIRMED"; exit 1
