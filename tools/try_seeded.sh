#!/bin/bash
# usage: try_seeded.sh <seeded-dir> <check-id> [tier]   -- applies the patch to /repo, runs the check, reverts
D="$(cd "$1" && pwd)"; ID="$2"; TIER="${3:-quick}"
cd /repo || exit 3
if ! git diff --quiet; then echo "/repo has uncommitted changes, refusing" >&2; exit 3; fi
git apply "$D/patch.diff" || { echo "patch does not apply" >&2; exit 3; }
( cd /verif && VERIF_NO_EVIDENCE=1 ./check "$ID" "$TIER" ); rc=$?
git -C /repo checkout -- . ; git -C /repo clean -fdq src
echo "try_seeded: $D on $ID -> exit $rc"
exit $rc
