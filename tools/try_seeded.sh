#!/bin/bash
# usage: try_seeded.sh <seeded-dir> <check-id> [tier]
# Judges one seeded change: the patch is applied to a throw-away worktree of /repo (HEAD + /repo's uncommitted changes
# are NOT carried over; /repo itself is never touched, so background passes keep building from a clean tree), the check is
# pointed at it with VERIF_REPO and runs with VERIF_NO_EVIDENCE=1, the worktree is removed.
# TRY_SEEDED_INPLACE=1 applies to /repo itself instead (git apply, run, git checkout), as the brief describes.
D="$(cd "$1" && pwd)"; ID="$2"; TIER="${3:-quick}"
if [ -n "${TRY_SEEDED_INPLACE:-}" ]; then
  cd /repo || exit 3
  if ! git diff --quiet; then echo "/repo has uncommitted changes, refusing" >&2; exit 3; fi
  git apply "$D/patch.diff" || { echo "patch does not apply" >&2; exit 3; }
  ( cd /verif && VERIF_NO_EVIDENCE=1 ./check "$ID" "$TIER" ); rc=$?
  git -C /repo checkout -- . ; git -C /repo clean -fdq src
  echo "try_seeded: $D on $ID -> exit $rc"; exit $rc
fi
WT="$(mktemp -d /tmp/try-seeded-XXXXXX)"; rmdir "$WT"
git -C /repo worktree add -q --detach "$WT" HEAD || exit 3
trap 'git -C /repo worktree remove --force "$WT" >/dev/null 2>&1; git -C /repo worktree prune' EXIT
( cd "$WT" && git apply "$D/patch.diff" ) || { echo "patch does not apply" >&2; exit 3; }
( cd "$(dirname "$0")/.." && VERIF_REPO="$WT" VERIF_NO_EVIDENCE=1 ./check "$ID" "$TIER" ); rc=$?
echo "try_seeded: $D on $ID -> exit $rc"
exit $rc
