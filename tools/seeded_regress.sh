#!/bin/bash
# usage: seeded_regress.sh [name-glob]   -- applies every kept seeded change to /repo in turn, runs the quick check of the
# property it breaks (from meta.json "property", else the directory prefix), reverts, and writes seeded/RESULTS.tsv
# (name, check, exit code, first violation classes). /repo must be clean; it is left clean.
cd "$(dirname "$0")/.." || exit 2
G="${1:-*}"
OUT=seeded/RESULTS.tsv; TMP=$(mktemp)
for d in seeded/$G/; do
  d=${d%/}; n=$(basename $d); [ -f $d/patch.diff ] || continue
  id=$(python3 -c "import json,sys;print(json.load(open('$d/meta.json')).get('property',''))" 2>/dev/null); [ -n "$id" ] || id=${n%%-*}
  ids="$id"; extra=$(python3 -c "import json;print(' '.join(json.load(open('$d/meta.json')).get('also_caught_by',[])))" 2>/dev/null)
  for c in $ids $extra; do
    out=$(VERIF_SHRINK_MS=${VERIF_SHRINK_MS:-4000} tools/try_seeded.sh $d $c quick 2>&1); rc=$?
    cls=$(echo "$out" | grep -a 'violation class' | sed -E 's/.*violation class "([^"]*)" \(([0-9]+) run.*/\1 x\2/' | head -4 | tr '\n' ';')
    printf "%s\t%s\t%s\t%s\n" "$n" "$c" "$rc" "$cls" | tee -a $TMP
  done
done
if [ "$G" = "*" ]; then mv $TMP $OUT; else
  python3 - "$OUT" "$TMP" <<'PY'
import sys
out,tmp=sys.argv[1],sys.argv[2]
new=[l for l in open(tmp) if l.strip()]
names={l.split('\t')[0] for l in new}
try: old=[l for l in open(out) if l.split('\t')[0] not in names]
except FileNotFoundError: old=[]
open(out,'w').writelines(sorted(old+new))
PY
  rm -f $TMP; fi
git -C /repo status --short | head -3
