#!/usr/bin/env python3
"""Regenerates MANIFEST.json from the table below (keeps it valid at all times)."""
import json, os
V = os.path.dirname(os.path.dirname(os.path.abspath(__file__)))
ALL = ["C%02d" % i for i in range(1, 21)]
BASE_NOTE = ("Trusted base: the instrumenter's rewrite table (DESIGN.md 3.1), simrt baton scheduler, go1.26.8 testing/synctest "
             "(fake clock, quiescence), the reference models/codecs written for this check, and the bounds of the tier. "
             "Sampling, not enumeration: a clean batch is evidence, not proof.")
CHECKS = {
 "C01": dict(engine="simrt+refcodec", cat="exploration", ref="DESIGN.md 5/C01",
   text="Seeded search over RDB files written by an independent reference writer (all types/encodings/length forms, metadata opcodes, >16 MiB hashes) parsed by the real loader behind a fragmenting, truncating stream with producer/consumer interleaving; every record compared field by field and byte for byte with the file.",
   tech="deterministic simulation: reference RDB writer as generator/oracle, simulated stream with fragmentation and truncation faults, scheduled producer/consumer"),
 "C02": dict(engine="simrt+simnet+modelredis", cat="exploration", ref="DESIGN.md 5/C02",
   text="Seeded search over (entry, configuration, target flavour, pre-existing key) with the real RestoreRdbEntry talking redigo/RESP over a simulated connection to a Redis model; the target keyspace is compared with the reference decoding of the source bytes, TTL to the millisecond of simulated time. Faults: connection reset after a tape-chosen number of bytes (a success must still be exact); the parser runs as a concurrent task.",
   tech="deterministic simulation: real restore code against a simulated network and Redis reference model, reference decoder as oracle"),
 "C10": dict(engine="simrt+refcodec", cat="exploration", ref="DESIGN.md 5/C10",
   text="Seeded search over RESP value trees, inline commands and keep-alives: tool encoder vs reference printer, tool decoder behind a fragmenting stream with per-element value/leftover/offset checks, and truncation/one-byte corruption compared with a reference parser. Half of the encodings use arguments that share one buffer, which must be unchanged afterwards.",
   tech="deterministic simulation of the input stream (fragmentation, truncation, corruption) + reference RESP printer/parser as oracle"),
 "C11": dict(engine="refcodec", cat="fault_enumeration", ref="DESIGN.md 5/C11",
   text="Per generated artefact (RDB file, every DUMP payload the loader emits) every byte position is substituted (3 alternatives quick, all 255 thorough), trailers are truncated and versions raised with a recomputed CRC; every mutant must be rejected; the three CRC-64 implementations are compared with a bitwise reference under arbitrary chunking.",
   tech="fault enumeration: exhaustive single-byte corruption per artefact with a simulated allocator limit; bitwise CRC-64 reference",
   note="Trusted base: refcodec CRC-64/RDB writer, the simulated allocator seam (single []byte allocations above 600 MiB abort the simulated process), go1.26.8. Exhaustive over byte positions per artefact, sampled over artefacts."),
 "C15": dict(engine="refcodec", cat="exploration", ref="DESIGN.md 5/C15",
   text="Seeded input search: keys with every brace arrangement against the cluster specification implemented bit by bit, all CRC16 copies (unexported ones through scratch-only export shims), and shard slot ranges for the checkpoint key and the key filter. Pure-function property: schedules/faults do not apply to this part. The simulated shard-sync part runs one to three shards at once.",
   tech="seeded input generation with shrinking on the tape; specification-text reference (no scheduler involvement: pure function)"),
 "C03": dict(engine="simrt+simnet+modelredis", cat="exploration", ref="DESIGN.md 5/C03",
   text="Seeded search over source command streams x filters x sender thresholds x release timing around the flush ticker x network profile x schedules, with the real DbSyncer pipeline between a master model and a target model; the target's applied-command log must equal the reference filter of the stream, and every command must arrive within a bounded simulated time.",
   tech="deterministic simulation: full sync pipeline under a tape-driven scheduler, simulated TCP/clock, master+target reference models, reference filter as oracle"),
 "C08": dict(engine="simrt+simnet+modelredis", cat="exploration", ref="DESIGN.md 5/C08",
   text="Seeded search over traffic histories spanning several ACK ticks, start offsets, and up to two cuts of the replication link at tape-chosen stream positions with refused re-dials; the oracle reads the tool's own REPLCONF ACK / PSYNC writes together with the exact number of bytes its reads had returned, and checks end-to-end stream continuity and checkpoint offsets. Link drops are resets or orderly closes (FIN); a quarter of the runs have a slow target.",
   tech="deterministic simulation: recorded simulated transport (byte-exact read/write events), link-cut fault injection, master/target models"),
 "C04": dict(engine="simrt+simnet+modelredis", cat="exploration", ref="DESIGN.md 5/C04",
   text="Seeded search over source histories, batchings and 1-3 interruption points (target connection cut at a byte position, reset at an instant, crash of the tool process) followed by restart and resume; at every cut the target dataset must equal a reference interpreter fed with the source history up to the stored checkpoint offset, and at the end an uninterrupted run. One run in eight syncs two sources with two DbSyncers in one process (each group must carry its own source's checkpoint).",
   tech="deterministic simulation with crash/restart and connection-cut fault injection; reference interpreter (detached Redis model) as oracle"),
 "C05": dict(engine="simrt+simnet+modelredis", cat="exploration", ref="DESIGN.md 5/C05",
   text="Seeded search over reply framings (keep-alive newlines, letter case, RDB sizes around the copy buffer, command bytes riding with the RDB) x heavy TCP segmentation/latency/short reads/small windows x schedules, through the real PSYNC hand-off and dump mode; the target must hold exactly the RDB keys and apply exactly the following commands, the dump file must be byte-identical. One sync run in four resets the source link after the hand-off and checks the reconnect PSYNC.",
   tech="deterministic simulation: simulated TCP with tape-chosen segmentation against the real sync hand-off and dump mode, master/target models"),
 "C13": dict(engine="simrt+simnet+modelredis", cat="exploration", ref="DESIGN.md 5/C13",
   text="Seeded search over the tool's own write-command table (read at run time) x arities x per-key pass/fail x whitelist/blacklist, observed as the command received by the target model in a simulated incremental sync; key positions come from the Redis command documentation. A third of the runs sync two sources with two DbSyncers in one process.",
   tech="deterministic simulation as observation path (incremental sync into a logging target model) + documented key specifications as reference"),
 "C07": dict(engine="simrt+simnet+modelredis", cat="exploration", ref="DESIGN.md 5/C07",
   text="Seeded search over RDB contents x filters x target.db x key_exists x 1-8 parallel workers x per-connection latency x worker interleavings, through the real full-sync phase and restore mode (real file); the target dataset is compared key by key with the reference decoding; injected error replies must never be hidden behind a signalled completion. Faults added: reset of one worker connection, slow storage (stalled reads), several input files restored at once.",
   tech="deterministic simulation: scheduled worker pool against a target model with injected error replies; reference decoder and filter predicate as oracle"),
 "C16": dict(engine="simrt+simnet+modelredis", cat="exploration", ref="DESIGN.md 5/C16",
   text="Seeded search over source keyspaces, adversarial SCAN paginations, keys vanishing between SCAN/DUMP/PTTL, batch sizes, big-key thresholds, filters, target.db, QoS rates and key-file scans, through the real rump pipeline (fetcher/writer/receiver) between a source and a target model; surviving keys must arrive with value and remaining TTL, vanished ones must be skipped, the run must end. Slow source, qps down to 3, and no target reply may be unread when Main returns.",
   tech="deterministic simulation: scan adversary + key mutator in the source model, scheduled three-stage pipeline, reference decoder as oracle"),
 "C14": dict(engine="simrt+simnet+modelredis", cat="exploration", ref="DESIGN.md 5/C14",
   text="Seeded search over target states reachable by histories of checkpoint writes/partial clears from several sources with related addresses, read by the real LoadCheckpoint over a simulated connection (optionally cut mid-load); result and side effects compared with a reference arg-max. One run in six lets the real sender write the checkpoints that the loader then reads.",
   tech="deterministic simulation: history generator + target model, connection-cut fault, reference arg-max oracle"),
 "C20": dict(engine="simrt+simnet+modelredis", cat="exploration", ref="DESIGN.md 5/C20",
   text="Seeded search over shard topologies, node orderings and per-node per-attempt failure sequences (refused dial, error reply, missing role, garbage) against the real supervisor with its back-off sleeps on the simulated clock; the selected node must have reported master in the deciding round, all others listed, and failure must be bounded. A quarter of the runs are a restart chain through the real DbSyncer with the master role moving between restarts.",
   tech="deterministic simulation: node models with tape-drawn per-attempt behaviour, refused-dial faults, simulated clock for the retry back-off"),
 "C17": dict(engine="simrt+refcodec", cat="exploration", ref="DESIGN.md 5/C17",
   text="Seeded search over RDB files (every classic encoding, binary keys, special scores, scripts) x 1-8 parallel decoders x interleavings of parser, decoders and writer, through the real decode mode on real files; the multiset of printed elements must equal the reference decoding. Pre-existing output files and slow storage (stalled writes) are part of the space.",
   tech="deterministic simulation: scheduled decoder pool over real files; reference RDB writer/decoder as generator and oracle"),
 "C12": dict(engine="simrt+refcodec+modelredis", cat="exploration", ref="DESIGN.md 5/C12",
   text="Seeded input search: logical values through EncodeDump/DecodeDump and the reference (Redis-semantics) decoder, loader payloads of every compact encoding through DecodeDump, the in-repo cupcake encoder, and files written by the tool's Encoder restored through a simulated restore run into a target model. Three of the four parts are pure functions (no scheduler involvement). A third of the runs start with damaged payloads (valid trailers) that must leave nothing behind.",
   tech="seeded generation with reference codecs as oracle; deterministic simulation only for the file-through-restore part"),
 "C06": dict(engine="simrt+simnet+modelredis", cat="exploration", ref="DESIGN.md 5/C06",
   text="Seeded search over keyspaces built around the configured prefixes (prefixes/extensions, hash tags, checkpoint keys, the key 'lua'), database numbers that are string-prefixes of one another, slot lists and filter.lua, each pushed through full sync, incremental sync, restore mode and rump in simulated runs; per path and key the observed copy decision must equal the statement's predicate.",
   tech="deterministic simulation of the four data paths against models; statement-derived filter predicate as oracle"),
 "C19": dict(engine="simrt+simnet+modelredis", cat="exploration", ref="DESIGN.md 5/C19",
   text="Cross-cutting monitor: fresh random sentinel passwords per run, seven run paths (sync incl. restart after a target cut and reconnect after a source cut, restore, rump, checkpoint load, supervisor, incl. AUTH failures) at four log levels; every captured log byte and status document is searched for the sentinels in raw/hex/base64 form. Nine run paths incl. dump and decode; peers that reject AUTH with the arguments echoed.",
   tech="deterministic simulation of the run paths with injected resets/restarts; secret-sentinel scan over captured logs and status documents"),
 "C18": dict(engine="simrt", cat="exploration", ref="DESIGN.md 5/C18",
   text="Seeded search over writer/reader/closer scripts and lock-granularity interleavings of the real backlog ring against an absolute-offset log model (interval semantics for in-flight writes), with lost-wake-up analysis at quiescence. One run in six has several writers at once (every Write must land contiguously); every statement of the package is a scheduling point.",
   tech="deterministic simulation: tape-driven baton scheduler over instrumented locks/conds + absolute-offset log model"),
 "C09": dict(engine="simrt", cat="exploration", ref="DESIGN.md 5/C09",
   text="Seeded search over writer/reader/closer scripts and lock-granularity interleavings of the real pipe code against a byte-queue model, with lost-wake-up analysis at quiescence; every failure is a minimised replayable tape. Repeated closes (first close wins); every statement of the package is a scheduling point, so dropped or narrowed locks show.",
   tech="deterministic simulation: tape-driven baton scheduler over instrumented locks/conds + reference byte queue"),
}
NOT_YET = "not claimed yet: the check for this property has not been built in this revision of /verif (see DESIGN.md 8 for the order of work)"
NA = {}
def main():
    checks = []
    for pid in ALL:
        if pid not in CHECKS: continue
        c = CHECKS[pid]
        checks.append({
            "property_id": pid,
            "quick_cmd": "./check %s quick" % pid,
            "thorough_cmd": "./check %s thorough" % pid,
            "evidence_file": "evidence/%s.json" % pid,
            "replay_cmd_template": "./check %s --replay {path}" % pid,
            "engine": c["engine"],
            "level_claimed": {"category": c["cat"], "text": c["text"], "design_ref": c["ref"]},
            "level_note": c.get("note", BASE_NOTE),
            "technique": c["tech"],
        })
    na = [{"property_id": p, "reason": NA.get(p, NOT_YET)} for p in ALL if p not in CHECKS]
    m = {
        "version": 1,
        "setup_cmd": "./setup.sh",
        "hooks": {
            "guard": "none",
            "enable": "no source hooks: each check copies /repo/src to a scratch dir and instruments the copy (tools/instrument) before building it with go1.26.8",
            "baseline_off_cmd": "cd /repo/src && GOFLAGS=-mod=mod GOPROXY=off GOSUMDB=off go test -vet=off -count=1 -timeout 25m ./pkg/...",
            "source_commits": [],
            "add_only": True,
        },
        "engines": [
            {"name": "simrt", "path": "sim/simrt", "serves_properties": sorted(CHECKS.keys()),
             "kind_free_text": "deterministic simulation: tape-driven baton scheduler inside testing/synctest bubbles over an AST-instrumented scratch copy of the tool"},
        ],
        "checks": checks,
        "not_applicable": na,
        "notes": "VERIF_SEED seeds the tape PRNG; VERIF_TIER overrides the positional tier; VERIF_BUDGET_S time-boxes thorough (default 900 s); exit 2 = machinery trouble (never dressed as 0/1).",
    }
    with open(os.path.join(V, "MANIFEST.json"), "w") as f:
        json.dump(m, f, indent=1)
        f.write("\n")
if __name__ == "__main__":
    main()
