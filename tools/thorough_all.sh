#!/bin/bash
# usage: thorough_all.sh <seed> <budget_s> [ids...]   -- runs the thorough tier of every check, prints one line each
SEED="${1:-2}"; B="${2:-300}"; shift 2 || true
IDS="$@"; [ -n "$IDS" ] || IDS="C01 C02 C03 C04 C05 C06 C07 C08 C09 C10 C11 C12 C13 C14 C15 C16 C17 C18 C19 C20"
cd "$(dirname "$0")/.." || exit 2
[ -x bin/driver ] || ./setup.sh
for id in $IDS; do
  out=$(VERIF_SEED=$SEED VERIF_BUDGET_S=$B VERIF_NO_EVIDENCE=1 ./check $id thorough 2>&1); rc=$?
  echo "== $id seed=$SEED rc=$rc :: $(echo "$out" | grep -a "thorough:\|VIOLATION\|KNOWN-FINDING\|driver:" | head -6 | cut -c1-240 | tr '\n' '|')"
done
