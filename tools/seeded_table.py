#!/usr/bin/env python3
"""Prints the markdown table of DESIGN.md section 10 from seeded/*/meta.json, seeded/RESULTS.tsv and seeded/VERIFIED.txt."""
import json, glob, os, collections
root = os.path.join(os.path.dirname(os.path.abspath(__file__)), '..')
res = collections.defaultdict(list)
for l in open(os.path.join(root, 'seeded/RESULTS.tsv')):
    f = l.rstrip('\n').split('\t')
    if len(f) >= 4:
        res[f[0]].append((f[1], f[2], f[3]))
ver = {}
for l in open(os.path.join(root, 'seeded/VERIFIED.txt')):
    n, _, r = l.partition(' :: ')
    ver[n.strip()] = 'NOT CONFIRMED' not in r and 'CONFIRMED' in r
print('| change (`seeded/<name>`) | breaks | what the change does | caught by (quick tier): violation classes | first missed? |')
print('|---|---|---|---|---|')
for d in sorted(glob.glob(os.path.join(root, 'seeded/*/'))):
    n = os.path.basename(d[:-1])
    m = json.load(open(d + 'meta.json'))
    title = (m.get('title') or m.get('summary') or m.get('what_it_breaks') or '').replace('|', '\\|').replace('\n', ' ')
    if len(title) > 150:
        title = title[:147] + '...'
    cb = []
    for chk, rc, cls in res.get(n, []):
        if rc == '1':
            c2 = '; '.join(x for x in cls.replace('|', '\\|').split(';') if x)[:170]
            cb.append('**%s**: `%s`' % (chk, c2))
        else:
            cb.append('%s: not caught (exit %s)' % (chk, rc))
    fm = m.get('first_missed', '')
    print('| %s%s | %s | %s | %s | %s |' % (n, '' if ver.get(n) else ' (unconfirmed)', m.get('property', n[:3]), title, '<br>'.join(cb), ('yes: ' + fm) if fm else 'no'))
