#!/bin/bash
# usage: mkscratch.sh <scratch-dir> [--no-instrument]
# Copies /repo/src (current working tree) and the harness into <scratch-dir>.
set -euo pipefail
S="$1"; shift || true
V="$(cd "$(dirname "$0")/.." && pwd)"
REPO="${VERIF_REPO:-/repo}"
rm -rf "$S"; mkdir -p "$S"
# copy tool sources without VCS data, tests' big fixtures are small enough to keep
rsync -a --exclude '.git' "$REPO/src/" "$S/src/"
mkdir -p "$S/src/pkg/simrt"
rsync -a "$V/sim/simrt/" "$S/src/pkg/simrt/"
# export shims for unexported functions (scratch copy only)
rsync -a "$V/sim/shims/" "$S/src/"
rsync -a "$V/sim/harness/" "$S/sim/"
cat > "$S/sim/go.mod" <<EOM
module verifsim

go 1.26

require github.com/alibaba/RedisShake v0.0.0

replace github.com/alibaba/RedisShake => ../src
EOM
cp "$S/src/go.sum" "$S/sim/go.sum"
