// instrument rewrites a scratch copy of the tool's module so that every
// scheduling-relevant construct goes through pkg/simrt (see DESIGN.md §3.1).
// It is type-aware (go/packages) and edits source text in place; a construct
// it does not know how to rewrite is a hard error (exit 2), never skipped.
package main

import (
	"encoding/json"
	"flag"
	"fmt"
	"go/ast"
	"go/token"
	"go/types"
	"os"
	"path/filepath"
	"sort"
	"strings"

	"golang.org/x/tools/go/packages"
)

const simrtPath = "github.com/alibaba/RedisShake/pkg/simrt"

type edit struct {
	start, end int
	text       string
	seq        int
}

type fileCtx struct {
	pkg     *packages.Package
	file    *ast.File
	src     []byte
	rel     string // path relative to module root
	edits   []edit
	keep    map[string]bool // import paths needing a keeper
	changed bool
	selID   int

	sharedCache map[*ast.BlockStmt]*types.Var

	extraImports map[string]string // import path -> private alias, for types the file cannot name otherwise
}

var (
	stats   = map[string]int{}
	errList []string
)

func fail(fset *token.FileSet, pos token.Pos, format string, args ...interface{}) {
	errList = append(errList, fmt.Sprintf("%s: %s", fset.Position(pos), fmt.Sprintf(format, args...)))
}

func (f *fileCtx) off(p token.Pos) int { return f.pkg.Fset.Position(p).Offset }
func (f *fileCtx) text(n ast.Node) string {
	return string(f.src[f.off(n.Pos()):f.off(n.End())])
}
func (f *fileCtx) site(p token.Pos) string {
	return fmt.Sprintf("%s:%d", f.rel, f.pkg.Fset.Position(p).Line)
}
func (f *fileCtx) ins(at token.Pos, text string) {
	o := f.off(at)
	f.edits = append(f.edits, edit{o, o, text, len(f.edits)})
	f.changed = true
}
func (f *fileCtx) insOff(o int, text string) {
	f.edits = append(f.edits, edit{o, o, text, len(f.edits)})
	f.changed = true
}
func (f *fileCtx) repl(from, to token.Pos, text string) {
	f.edits = append(f.edits, edit{f.off(from), f.off(to), text, len(f.edits)})
	f.changed = true
}

// importName returns the local name under which path is imported in this file.
func (f *fileCtx) importName(path string) (string, bool) {
	for _, im := range f.file.Imports {
		p := strings.Trim(im.Path.Value, `"`)
		if p != path {
			continue
		}
		if im.Name != nil {
			if im.Name.Name == "_" || im.Name.Name == "." {
				return "", false
			}
			return im.Name.Name, true
		}
		// default name: package name of the imported package
		if ip := f.pkg.Imports[path]; ip != nil && ip.Name != "" {
			return ip.Name, true
		}
		return filepath.Base(path), true
	}
	return "", false
}

func (f *fileCtx) typeString(t types.Type, at token.Pos) string {
	bad := false
	s := types.TypeString(t, func(p *types.Package) string {
		if p == f.pkg.Types {
			return ""
		}
		n, ok := f.importName(p.Path())
		if !ok {
			// the file does not import the package that declares this type: import it under a private name
			if f.extraImports == nil {
				f.extraImports = map[string]string{}
			}
			a, have := f.extraImports[p.Path()]
			if !have {
				a = fmt.Sprintf("verifimp%d", len(f.extraImports))
				f.extraImports[p.Path()] = a
			}
			return a
		}
		return n
	})
	if bad {
		fail(f.pkg.Fset, at, "type %s is not nameable in this file (missing import)", s)
	}
	return s
}

func funcFullName(info *types.Info, e ast.Expr) string {
	var id *ast.Ident
	switch x := e.(type) {
	case *ast.SelectorExpr:
		id = x.Sel
	case *ast.Ident:
		id = x
	default:
		return ""
	}
	if fn, ok := info.Uses[id].(*types.Func); ok {
		return fn.FullName()
	}
	return ""
}

// call rewrite table: full name -> (replacement function, takes receiver, wants site)
type callRule struct {
	fn       string
	recv     bool
	site     bool
	keepPath string
}

var callRules = map[string]callRule{
	"(*sync.Mutex).Lock":        {"Lock", true, true, ""},
	"(*sync.Mutex).Unlock":      {"Unlock", true, false, ""},
	"(*sync.RWMutex).Lock":      {"RWLock", true, true, ""},
	"(*sync.RWMutex).Unlock":    {"RWUnlock", true, false, ""},
	"(*sync.RWMutex).RLock":     {"RWRLock", true, true, ""},
	"(*sync.RWMutex).RUnlock":   {"RWRUnlock", true, false, ""},
	"(*sync.Cond).Wait":         {"CondWait", true, true, ""},
	"(*sync.Cond).Signal":       {"CondSignal", true, false, ""},
	"(*sync.Cond).Broadcast":    {"CondBroadcast", true, false, ""},
	"(*sync.WaitGroup).Wait":    {"WGWait", true, true, ""},
	"time.Sleep":                {"Sleep", false, true, "time"},
	"os.Exit":                   {"Exit", false, false, "os"},
	"net.Dial":                  {"Dial", false, false, "net"},
	"net.DialTimeout":           {"DialTimeout", false, false, "net"},
	"(*net.Dialer).Dial":        {"DialerDial", true, false, "net"},
	"crypto/tls.Dial":           {"DialTLS", false, false, "crypto/tls"},
	"crypto/tls.DialWithDialer": {"DialTLSWithDialer", false, false, "crypto/tls"},
	"(*golang.org/x/sync/semaphore.Weighted).Acquire": {"SemAcquire", true, true, ""},
	"(io.Reader).Read":            {"IORead", true, true, ""},
	"(*bufio.Writer).Flush":       {"BufioFlush", true, true, ""},
	"(*bufio.Writer).WriteString": {"BufioWriteString", true, true, ""},
	"(*bufio.Writer).Write":       {"BufioWrite", true, true, ""},
	"(*os.File).Read":             {"FileRead", true, true, ""},
	"(*os.File).Write":            {"FileWrite", true, true, ""},
	"(*os.File).WriteString":      {"FileWriteString", true, true, ""},
	"(*sync.Once).Do":             {"OnceDo", true, true, ""},
	"(*sync.Map).Range":           {"SyncMapRange", true, false, ""},
	"(*sync.Pool).Get":            {"PoolGet", true, false, ""},
	"(*sync.Pool).Put":            {"PoolPut", true, false, ""},
}

// constructs that are known, deliberately not simulated, and only counted
var allowed = map[string]string{
	"github.com/garyburd/redigo/redis.DialTimeout": "redigo_dial_cluster_only",
	"github.com/garyburd/redigo/redis.Dial":        "redigo_dial_cluster_only",
	"net.Listen":                                   "listen_not_simulated",
	"net/http.ListenAndServe":                      "http_not_simulated",
}

var forbidden = map[string]bool{
	"(*sync.Mutex).TryLock": true, "(sync.Locker).Lock": true, "(sync.Locker).Unlock": true,
	"time.AfterFunc": true, "time.Tick": false,
}

func main() {
	dir := flag.String("dir", "", "module root of the scratch copy")
	flag.Parse()
	if *dir == "" {
		fmt.Fprintln(os.Stderr, "usage: instrument -dir <scratch>/src")
		os.Exit(2)
	}
	abs, _ := filepath.Abs(*dir)
	cfg := &packages.Config{
		Mode: packages.NeedName | packages.NeedFiles | packages.NeedCompiledGoFiles | packages.NeedSyntax |
			packages.NeedTypes | packages.NeedTypesInfo | packages.NeedImports | packages.NeedDeps,
		Dir:   abs,
		Tests: false,
		Env:   append(os.Environ(), "GOFLAGS=-mod=mod", "GOPROXY=off", "GOSUMDB=off", "GOTOOLCHAIN=local"),
	}
	pkgs, err := packages.Load(cfg, "./pkg/...", "./redis-shake/...")
	if err != nil {
		fmt.Fprintln(os.Stderr, "instrument: load:", err)
		os.Exit(2)
	}
	skip := func(path string) bool {
		return strings.HasPrefix(path, simrtPath) ||
			strings.HasSuffix(path, "/redis-shake/main") ||
			strings.Contains(path, "/cupcake/rdb/examples") ||
			strings.Contains(path, "/integration-test")
	}
	analyseGlobals(pkgs, skip)
	nfiles := 0
	for _, p := range pkgs {
		if skip(p.PkgPath) {
			continue
		}
		if len(p.Errors) > 0 {
			for _, e := range p.Errors {
				errList = append(errList, "type error: "+e.Error())
			}
			continue
		}
		for i, file := range p.Syntax {
			name := p.CompiledGoFiles[i]
			if strings.HasSuffix(name, "_test.go") {
				continue
			}
			src, err := os.ReadFile(name)
			if err != nil {
				fmt.Fprintln(os.Stderr, err)
				os.Exit(2)
			}
			rel, _ := filepath.Rel(abs, name)
			fc := &fileCtx{pkg: p, file: file, src: src, rel: rel, keep: map[string]bool{}}
			fc.process()
			fc.emitResets()
			if fc.changed {
				out := fc.apply()
				if err := os.WriteFile(name, out, 0644); err != nil {
					fmt.Fprintln(os.Stderr, err)
					os.Exit(2)
				}
				nfiles++
			}
		}
	}
	writeResetRegistrations()
	stats["files_rewritten"] = nfiles
	if len(errList) > 0 {
		sort.Strings(errList)
		for _, e := range errList {
			fmt.Fprintln(os.Stderr, "instrument:", e)
		}
		os.Exit(2)
	}
	b, _ := json.Marshal(stats)
	fmt.Println(string(b))
}

// ---------------------------------------------------------------------------------------------------------------
// Package-level mutable state (DESIGN.md §3.1, "globals").
//
// A package-level variable of the tool that is written by ordinary code (assigned, incremented, element- or
// field-assigned, address-taken, or used as the receiver of a pointer method) is state shared by every goroutine of
// the process. Two things follow for the simulation:
//   1. every statement that touches such a variable is a scheduling point (simrt.Pre), so that unsynchronised
//      read-modify-write sequences on it interleave under the scheduler's control like everything else;
//   2. the variable is re-initialised before every simulated run (simrt.ResetGlobals), because one worker process
//      executes many runs and the real tool starts each of its runs from a fresh process image.
// The configuration record configure.Options is exempt: it is written before any goroutine starts.

const optionsVar = "github.com/alibaba/RedisShake/redis-shake/configure.Options"

var (
	mutatedGlobal = map[*types.Var]bool{}
	globalPkgs    = map[*types.Package]bool{}
	sharedObj     = map[*types.Var]bool{}           // pointer/interface globals whose object is used through methods
	escapedPkgs   = map[*types.Package]*types.Var{} // packages in which a package-level slice/map is handed on as a value
	valueReadOnly = map[*ast.Ident]bool{}           // identifier occurrences that only index, measure or range over the value
	sharedFuncs   = map[*types.Func]*types.Var{}    // functions that receive mutated package-level memory as an argument
)

func isPkgLevel(v *types.Var) bool {
	return v != nil && v.Pkg() != nil && !v.IsField() && v.Parent() == v.Pkg().Scope()
}

// rootVar returns the package-level variable an lvalue-ish expression is rooted in, if any.
func rootVar(info *types.Info, e ast.Expr) *types.Var {
	for {
		switch x := e.(type) {
		case *ast.ParenExpr:
			e = x.X
		case *ast.IndexExpr:
			e = x.X
		case *ast.SliceExpr:
			e = x.X
		case *ast.StarExpr:
			e = x.X
		case *ast.SelectorExpr:
			if id, ok := x.X.(*ast.Ident); ok {
				if _, isPkg := info.Uses[id].(*types.PkgName); isPkg {
					if v, ok := info.Uses[x.Sel].(*types.Var); ok && isPkgLevel(v) {
						return v
					}
					return nil
				}
			}
			e = x.X
		case *ast.Ident:
			if v, ok := info.Uses[x].(*types.Var); ok && isPkgLevel(v) {
				return v
			}
			return nil
		default:
			return nil
		}
	}
}

func markMutated(v *types.Var) {
	if v == nil || !globalPkgs[v.Pkg()] {
		return
	}
	if v.Pkg().Path()+"."+v.Name() == optionsVar {
		return
	}
	mutatedGlobal[v] = true
}

// baseIdent: the identifier an expression like g, pkg.g or (g) denotes, if any.
func baseIdent(e ast.Expr) *ast.Ident {
	switch x := e.(type) {
	case *ast.ParenExpr:
		return baseIdent(x.X)
	case *ast.Ident:
		return x
	case *ast.SelectorExpr:
		return x.Sel
	}
	return nil
}

// markSharedObj: v is a package-level pointer or interface whose object has methods called on it. Objects of types from
// outside the tool's module (prometheus vectors, regexps) are taken to synchronise themselves and are left alone;
// interfaces (unknown implementation) and pointers to the tool's own types count.
func markSharedObj(v *types.Var) {
	if v == nil || !globalPkgs[v.Pkg()] || v.Pkg().Path()+"."+v.Name() == optionsVar {
		return
	}
	t := v.Type()
	if p, ok := t.Underlying().(*types.Pointer); ok {
		if n, ok := p.Elem().(*types.Named); ok && n.Obj().Pkg() != nil && !globalPkgs[n.Obj().Pkg()] {
			return
		}
	}
	sharedObj[v] = true
}

// analyseGlobals finds the package-level variables that ordinary code (anything but func init) writes.
func analyseGlobals(pkgs []*packages.Package, skip func(string) bool) {
	for _, p := range pkgs {
		if !skip(p.PkgPath) && len(p.Errors) == 0 && p.Types != nil {
			globalPkgs[p.Types] = true
		}
	}
	for _, p := range pkgs {
		if skip(p.PkgPath) || len(p.Errors) > 0 {
			continue
		}
		info := p.TypesInfo
		for i, file := range p.Syntax {
			if strings.HasSuffix(p.CompiledGoFiles[i], "_test.go") {
				continue
			}
			scan := func(body ast.Node) {
				ast.Inspect(body, func(n ast.Node) bool {
					switch x := n.(type) {
					case *ast.Ident:
						// any use of a package-level pointer (to one of the tool's own types) or interface (other than
						// error): the object behind it is reachable from every goroutine, also through local aliases
						if v, ok := info.Uses[x].(*types.Var); ok && isPkgLevel(v) {
							switch u := v.Type().Underlying().(type) {
							case *types.Pointer:
								markSharedObj(v)
							case *types.Interface:
								if !types.Identical(v.Type(), types.Universe.Lookup("error").Type()) && u.NumMethods() > 0 {
									markSharedObj(v)
								}
							case *types.Slice, *types.Map:
								// a package-level slice or map handed on as a value (stored in a struct, passed to a
								// function, re-sliced): whoever holds the copy writes into memory all goroutines share,
								// and where that happens cannot be told statically -> the whole package is treated as
								// working on shared memory. Element reads, len/cap and range do not count.
								if !valueReadOnly[x] && globalPkgs[v.Pkg()] && v.Pkg().Path()+"."+v.Name() != optionsVar {
									escapedPkgs[p.Types] = v
								}
							}
						}
					case *ast.IndexExpr:
						if id := baseIdent(x.X); id != nil {
							valueReadOnly[id] = true
						}
					case *ast.AssignStmt:
						if x.Tok != token.DEFINE {
							for _, l := range x.Lhs {
								markMutated(rootVar(info, l))
							}
						}
					case *ast.IncDecStmt:
						markMutated(rootVar(info, x.X))
					case *ast.RangeStmt:
						if id := baseIdent(x.X); id != nil {
							valueReadOnly[id] = true
						}
						if x.Tok == token.ASSIGN {
							if x.Key != nil {
								markMutated(rootVar(info, x.Key))
							}
							if x.Value != nil {
								markMutated(rootVar(info, x.Value))
							}
						}
					case *ast.UnaryExpr:
						if x.Op == token.AND {
							markMutated(rootVar(info, x.X))
						}
					case *ast.CallExpr:
						// append(g[:0], ...) and copy(g, ...) write into the memory a package-level slice points at
						if id, ok := x.Fun.(*ast.Ident); ok && len(x.Args) > 0 {
							if _, isB := info.Uses[id].(*types.Builtin); isB && (id.Name == "append" || id.Name == "copy") {
								markMutated(rootVar(info, x.Args[0]))
							}
							if _, isB := info.Uses[id].(*types.Builtin); isB && (id.Name == "len" || id.Name == "cap") {
								if a := baseIdent(x.Args[0]); a != nil {
									valueReadOnly[a] = true
								}
							}
						}
						if sel, ok := x.Fun.(*ast.SelectorExpr); ok {
							if s := info.Selections[sel]; s != nil && s.Kind() == types.MethodVal {
								if fn, ok := s.Obj().(*types.Func); ok {
									if sig, ok := fn.Type().(*types.Signature); ok && sig.Recv() != nil {
										if tv, ok := info.Types[sel.X]; ok {
											_, ptrRecv := sig.Recv().Type().(*types.Pointer)
											switch tv.Type.Underlying().(type) {
											case *types.Pointer, *types.Interface:
												// a method of the object a package-level pointer or interface refers to: a shared
												// object (scheduling points, but no re-initialisation: its initialiser may have
												// side effects such as registering a metric)
												markSharedObj(rootVar(info, sel.X))
											default:
												if ptrRecv {
													markMutated(rootVar(info, sel.X)) // implicit &x
												}
											}
										}
									}
								}
							}
						}
					}
					return true
				})
			}
			for _, d := range file.Decls {
				switch x := d.(type) {
				case *ast.FuncDecl:
					if x.Body == nil || (x.Recv == nil && x.Name.Name == "init") {
						continue
					}
					scan(x.Body)
				case *ast.GenDecl:
					if x.Tok != token.VAR {
						continue
					}
					for _, sp := range x.Specs {
						for _, v := range sp.(*ast.ValueSpec).Values {
							ast.Inspect(v, func(n ast.Node) bool {
								if fl, ok := n.(*ast.FuncLit); ok {
									scan(fl.Body)
									return false
								}
								return true
							})
						}
					}
				}
			}
		}
	}
	stats["mutated_globals"] = len(mutatedGlobal)
	stats["shared_object_globals"] = len(sharedObj)
	// second pass: a function of the tool that is handed mutated package-level memory as an argument (a slice, map or
	// pointer rooted in such a variable) works on shared memory as well
	for _, p := range pkgs {
		if skip(p.PkgPath) || len(p.Errors) > 0 {
			continue
		}
		info := p.TypesInfo
		for i, file := range p.Syntax {
			if strings.HasSuffix(p.CompiledGoFiles[i], "_test.go") {
				continue
			}
			ast.Inspect(file, func(n ast.Node) bool {
				call, ok := n.(*ast.CallExpr)
				if !ok {
					return true
				}
				var fn *types.Func
				switch f := call.Fun.(type) {
				case *ast.Ident:
					fn, _ = info.Uses[f].(*types.Func)
				case *ast.SelectorExpr:
					fn, _ = info.Uses[f.Sel].(*types.Func)
				}
				if fn == nil || fn.Pkg() == nil || !globalPkgs[fn.Pkg()] {
					return true
				}
				for _, a := range call.Args {
					tv, ok := info.Types[a]
					if !ok {
						continue
					}
					switch tv.Type.Underlying().(type) {
					case *types.Slice, *types.Map, *types.Pointer:
					default:
						continue
					}
					if v := refsMutatedGlobal(info, a); v != nil {
						sharedFuncs[fn] = v
					}
				}
				return true
			})
		}
	}
	stats["shared_memory_callees"] = len(sharedFuncs)
	stats["packages_with_escaping_global_memory"] = len(escapedPkgs)
}

// refsMutatedGlobal reports the first mutated package-level variable referenced inside n (function literals excluded:
// their bodies are instrumented on their own).
func refsMutatedGlobal(info *types.Info, n ast.Node) *types.Var {
	if n == nil {
		return nil
	}
	var found *types.Var
	ast.Inspect(n, func(m ast.Node) bool {
		if found != nil {
			return false
		}
		switch x := m.(type) {
		case *ast.FuncLit:
			return false
		case *ast.Ident:
			if v, ok := info.Uses[x].(*types.Var); ok && (mutatedGlobal[v] || sharedObj[v]) {
				found = v
			}
		}
		return true
	})
	return found
}

// emitResets appends, to the file that declares them, one re-initialisation function per mutated package-level
// variable spec, and records their names per package in initialisation order.
var resetFuncs = map[*packages.Package][]string{} // package -> function names, zeroing first

func (f *fileCtx) emitResets() {
	info := f.pkg.TypesInfo
	var zero, reinit []string
	var text strings.Builder
	for _, d := range f.file.Decls {
		gd, ok := d.(*ast.GenDecl)
		if !ok || gd.Tok != token.VAR {
			continue
		}
		for _, sp := range gd.Specs {
			vs := sp.(*ast.ValueSpec)
			any := false
			for _, n := range vs.Names {
				if v, ok := info.Defs[n].(*types.Var); ok && mutatedGlobal[v] {
					any = true
				}
			}
			if !any {
				continue
			}
			first := ""
			for _, n := range vs.Names {
				if n.Name != "_" {
					first = n.Name
					break
				}
			}
			switch {
			case len(vs.Values) == 0:
				for _, n := range vs.Names {
					if v, ok := info.Defs[n].(*types.Var); ok && mutatedGlobal[v] {
						fn := "verifZero_" + n.Name
						fmt.Fprintf(&text, "\nfunc %s() { simrt.ZeroOut(&%s) }\n", fn, n.Name)
						zero = append(zero, fn)
						stats["global_reset"]++
					}
				}
			case len(vs.Values) == len(vs.Names):
				for i, n := range vs.Names {
					if v, ok := info.Defs[n].(*types.Var); ok && mutatedGlobal[v] {
						fn := "verifReset_" + n.Name
						fmt.Fprintf(&text, "\nfunc %s() { %s = %s }\n", fn, n.Name, f.text(vs.Values[i]))
						reinit = append(reinit, fn)
						stats["global_reset"]++
					}
				}
			default: // a, b = f()
				var names []string
				for _, n := range vs.Names {
					names = append(names, n.Name)
				}
				fn := "verifReset_" + first
				fmt.Fprintf(&text, "\nfunc %s() { %s = %s }\n", fn, strings.Join(names, ", "), f.text(vs.Values[0]))
				reinit = append(reinit, fn)
				stats["global_reset"]++
			}
		}
	}
	if text.Len() == 0 {
		return
	}
	f.insOff(len(f.src), "\n// ---- added by the instrumenter: re-initialisation of mutated package-level state\nvar _ = simrt.ZeroOut\n"+text.String())
	resetFuncs[f.pkg] = append(append(zero, resetFuncs[f.pkg]...), reinit...)
}

// writeResetRegistrations creates verif_reset.go in every package that has reset functions.
func writeResetRegistrations() {
	for p, fns := range resetFuncs {
		if len(fns) == 0 || len(p.CompiledGoFiles) == 0 {
			continue
		}
		// order: zeroing functions first (already in front), then initialisers in the package's initialisation order
		rank := map[string]int{}
		for i, in := range p.TypesInfo.InitOrder {
			for _, l := range in.Lhs {
				if _, ok := rank["verifReset_"+l.Name()]; !ok {
					rank["verifReset_"+l.Name()] = i + 1
				}
			}
		}
		sort.SliceStable(fns, func(i, j int) bool { return rank[fns[i]] < rank[fns[j]] })
		var b strings.Builder
		fmt.Fprintf(&b, "package %s\n\n// Added by the instrumenter (scratch copy only).\n\nimport simrt %q\n\nfunc init() {\n", p.Name, simrtPath)
		for _, fn := range fns {
			fmt.Fprintf(&b, "\tsimrt.RegisterReset(%q, %s)\n", p.PkgPath+"."+fn, fn)
		}
		b.WriteString("}\n")
		dir := filepath.Dir(p.CompiledGoFiles[0])
		if err := os.WriteFile(filepath.Join(dir, "verif_reset.go"), []byte(b.String()), 0644); err != nil {
			fmt.Fprintln(os.Stderr, err)
			os.Exit(2)
		}
	}
}

func (f *fileCtx) apply() []byte {
	// import + keepers
	imp := "\nimport simrt \"" + simrtPath + "\"\n"
	var extra []string
	for path, alias := range f.extraImports {
		extra = append(extra, fmt.Sprintf("import %s %q\n", alias, path))
	}
	sort.Strings(extra)
	imp += strings.Join(extra, "")
	f.insOff(f.off(f.file.Name.End()), imp)
	var keepers []string
	for path := range f.keep {
		if n, ok := f.importName(path); ok {
			switch path {
			case "os":
				keepers = append(keepers, "var _ = "+n+".Exit")
			case "net":
				keepers = append(keepers, "var _ = "+n+".Dial")
			case "crypto/tls":
				keepers = append(keepers, "var _ = "+n+".Dial")
			case "time":
				keepers = append(keepers, "var _ = "+n+".Sleep")
			}
		}
	}
	sort.Strings(keepers)
	if len(keepers) > 0 {
		f.insOff(len(f.src), "\n"+strings.Join(keepers, "\n")+"\n")
	}
	sort.SliceStable(f.edits, func(i, j int) bool {
		if f.edits[i].start != f.edits[j].start {
			return f.edits[i].start < f.edits[j].start
		}
		return f.edits[i].seq < f.edits[j].seq
	})
	var out []byte
	pos := 0
	for _, e := range f.edits {
		if e.start < pos {
			fail(f.pkg.Fset, f.file.Pos(), "overlapping edits at offset %d in %s", e.start, f.rel)
			continue
		}
		out = append(out, f.src[pos:e.start]...)
		out = append(out, e.text...)
		pos = e.end
	}
	out = append(out, f.src[pos:]...)
	return out
}

// lockBearingMethod: the node on top of the stack lies in a function of a package that declares a struct type with a
// sync.Mutex or sync.RWMutex field (directly or behind a pointer): the package implements an object meant to be shared
// between goroutines, and every statement of it (also of its lock-free helpers, e.g. the ring buffer behind the pipe)
// is a conditional scheduling point.
var lockPkgCache = map[*types.Package]bool{}

func (f *fileCtx) lockBearingMethod(stack []ast.Node) bool {
	inFn := false
	for i := len(stack) - 1; i >= 0; i-- {
		switch x := stack[i].(type) {
		case *ast.FuncLit:
			inFn = true
		case *ast.FuncDecl:
			inFn = !(x.Recv == nil && x.Name.Name == "init")
		}
		if inFn {
			break
		}
	}
	if !inFn {
		return false
	}
	pk := f.pkg.Types
	if v, ok := lockPkgCache[pk]; ok {
		return v
	}
	res := false
	sc := pk.Scope()
	for _, name := range sc.Names() {
		tn, ok := sc.Lookup(name).(*types.TypeName)
		if !ok {
			continue
		}
		st, ok := tn.Type().Underlying().(*types.Struct)
		if !ok {
			continue
		}
		for k := 0; k < st.NumFields(); k++ {
			ft := st.Field(k).Type()
			if p, ok := ft.Underlying().(*types.Pointer); ok {
				ft = p.Elem()
			}
			if n, ok := ft.(*types.Named); ok && n.Obj().Pkg() != nil && n.Obj().Pkg().Path() == "sync" && (n.Obj().Name() == "Mutex" || n.Obj().Name() == "RWMutex") {
				res = true
			}
		}
	}
	lockPkgCache[pk] = res
	return res
}

// sharedStateFunc returns the mutated package-level variable referenced by the innermost function around the node on
// top of the stack (nil if none, or if that function is a top-level func init).
func (f *fileCtx) sharedStateFunc(stack []ast.Node) *types.Var {
	if v := escapedPkgs[f.pkg.Types]; v != nil && inFunc(stack) {
		return v
	}
	for i := len(stack) - 1; i >= 0; i-- {
		var body *ast.BlockStmt
		switch x := stack[i].(type) {
		case *ast.FuncLit:
			body = x.Body
		case *ast.FuncDecl:
			if x.Recv == nil && x.Name.Name == "init" {
				return nil
			}
			body = x.Body
			if fn, ok := f.pkg.TypesInfo.Defs[x.Name].(*types.Func); ok {
				if v := sharedFuncs[fn]; v != nil && x.Body != nil {
					return v
				}
			}
		default:
			continue
		}
		if body == nil {
			return nil
		}
		if f.sharedCache == nil {
			f.sharedCache = map[*ast.BlockStmt]*types.Var{}
		}
		v, ok := f.sharedCache[body]
		if !ok {
			v = refsMutatedGlobalIn(f.pkg.TypesInfo, body)
			f.sharedCache[body] = v
		}
		return v
	}
	return nil
}

// refsMutatedGlobalIn is refsMutatedGlobal over the statements of a body (nested function literals excluded).
func refsMutatedGlobalIn(info *types.Info, body *ast.BlockStmt) *types.Var {
	for _, st := range body.List {
		if v := refsMutatedGlobal(info, st); v != nil {
			return v
		}
	}
	return nil
}

// inFunc: the node on top of the stack lies inside a function body other than a top-level func init.
func inFunc(stack []ast.Node) bool {
	for i := len(stack) - 1; i >= 0; i-- {
		switch x := stack[i].(type) {
		case *ast.FuncLit:
			return true
		case *ast.FuncDecl:
			return !(x.Recv == nil && x.Name.Name == "init")
		}
	}
	return false
}

func (f *fileCtx) process() {
	info := f.pkg.TypesInfo
	fset := f.pkg.Fset
	var stack []ast.Node
	handledRecv := map[*ast.UnaryExpr]bool{}
	handledSend := map[*ast.SendStmt]bool{}
	handledCall := map[*ast.CallExpr]bool{}

	parent := func(k int) ast.Node {
		if len(stack)-1-k < 0 {
			return nil
		}
		return stack[len(stack)-1-k]
	}
	inList := func(st ast.Stmt, par ast.Node) bool {
		switch p := par.(type) {
		case *ast.BlockStmt:
			for _, s := range p.List {
				if s == st {
					return true
				}
			}
		case *ast.CaseClause:
			for _, s := range p.Body {
				if s == st {
					return true
				}
			}
		case *ast.CommClause:
			for _, s := range p.Body {
				if s == st {
					return true
				}
			}
		}
		return false
	}

	ast.Inspect(f.file, func(n ast.Node) bool {
		if n == nil {
			stack = stack[:len(stack)-1]
			return true
		}
		par := parent(0)
		stack = append(stack, n)
		// Methods of a struct type that carries a lock (sync.Mutex / RWMutex field) operate on state meant to be shared:
		// every statement of such a method is a *conditional* scheduling point (simrt.PreIf: only for the packages a run
		// enables lock-level exploration for). With the lock held the extra points only let other tasks run into the
		// lock; if a change drops or narrows the locking they are what lets the race show.
		if st, isStmt := n.(ast.Stmt); isStmt && inList(st, par) && f.lockBearingMethod(stack) {
			switch st.(type) {
			case *ast.ExprStmt, *ast.AssignStmt, *ast.IncDecStmt, *ast.ReturnStmt, *ast.SendStmt, *ast.DeclStmt,
				*ast.IfStmt, *ast.SwitchStmt, *ast.TypeSwitchStmt, *ast.ForStmt, *ast.RangeStmt:
				f.ins(st.Pos(), fmt.Sprintf("simrt.PreIf(%q); ", f.site(st.Pos())))
				stats["lock_type_stmt_yield"]++
			}
		}
		// A function that touches mutated package-level state anywhere in its body works on shared memory (possibly
		// through local aliases of it): every statement of such a function is a scheduling point.
		if st, isStmt := n.(ast.Stmt); isStmt && inList(st, par) {
			if v := f.sharedStateFunc(stack); v != nil {
				switch st.(type) {
				case *ast.ExprStmt, *ast.AssignStmt, *ast.IncDecStmt, *ast.ReturnStmt, *ast.SendStmt, *ast.DeclStmt,
					*ast.IfStmt, *ast.SwitchStmt, *ast.TypeSwitchStmt, *ast.ForStmt, *ast.RangeStmt:
					f.ins(st.Pos(), fmt.Sprintf("simrt.Pre(%q); ", "global:"+v.Name()+"@"+f.site(st.Pos())))
					stats["global_yield"]++
				}
			}
		}
		switch x := n.(type) {
		case *ast.GoStmt:
			if !inList(x, par) {
				fail(fset, x.Pos(), "go statement not in a statement list")
				break
			}
			f.rewriteGo(x)
		case *ast.SelectStmt:
			if !inList(x, par) {
				fail(fset, x.Pos(), "select statement not in a statement list (labeled?)")
				break
			}
			f.rewriteSelect(x, handledRecv, handledSend)
		case *ast.SendStmt:
			if handledSend[x] {
				break
			}
			if !inList(x, par) {
				fail(fset, x.Pos(), "send statement not in a statement list")
				break
			}
			f.ins(x.Pos(), fmt.Sprintf("simrt.Pre(%q); ", f.site(x.Pos())))
			f.ins(x.End(), "; simrt.Post()")
			stats["send"]++
		case *ast.UnaryExpr:
			if x.Op != token.ARROW || handledRecv[x] {
				break
			}
			// find enclosing statement
			var st ast.Stmt
			var stPar ast.Node
			for k := 1; ; k++ {
				p := parent(k)
				if p == nil {
					break
				}
				if s, ok := p.(ast.Stmt); ok {
					st = s
					stPar = parent(k + 1)
					break
				}
				if _, ok := p.(*ast.FuncLit); ok {
					break
				}
			}
			ok := false
			switch st.(type) {
			case *ast.ExprStmt, *ast.AssignStmt, *ast.DeclStmt:
				ok = st != nil && inList(st, stPar)
			}
			if !ok {
				// a receive buried in an expression (if/for/switch header, return value, call argument): wrap the
				// receive itself. Only the single-value form can occur here (v, ok := <-ch is an assignment).
				tv, have := info.Types[x]
				if !have || tv.Type == nil {
					fail(fset, x.Pos(), "receive expression in unsupported statement context (no type)")
					break
				}
				if _, isTuple := tv.Type.(*types.Tuple); isTuple {
					fail(fset, x.Pos(), "comma-ok receive in unsupported statement context")
					break
				}
				ts := f.typeString(tv.Type, x.Pos())
				f.ins(x.Pos(), fmt.Sprintf("func() %s { simrt.Pre(%q); verifV := ", ts, f.site(x.Pos())))
				f.ins(x.End(), "; simrt.Post(); return verifV }()")
				stats["recv_in_expr"]++
				break
			}
			f.ins(st.Pos(), fmt.Sprintf("simrt.Pre(%q); ", f.site(x.Pos())))
			f.ins(st.End(), "; simrt.Post()")
			stats["recv"]++
		case *ast.RangeStmt:
			tv, ok := info.Types[x.X]
			if !ok {
				break
			}
			switch u := tv.Type.Underlying().(type) {
			case *types.Chan:
				if !inList(x, par) {
					if _, isLab := par.(*ast.LabeledStmt); !isLab {
						fail(fset, x.Pos(), "range-over-channel not in a statement list")
						break
					}
				}
				anchor := x.Pos()
				if lab, isLab := par.(*ast.LabeledStmt); isLab {
					anchor = lab.Pos()
				}
				site := f.site(x.Pos())
				f.ins(anchor, fmt.Sprintf("simrt.Pre(%q); ", site))
				f.insOff(f.off(x.Body.Lbrace)+1, " simrt.Post(); ")
				f.ins(x.Body.Rbrace, fmt.Sprintf("; simrt.Pre(%q); ", site))
				f.ins(x.End(), "; simrt.Post()")
				stats["range_chan"]++
			case *types.Map:
				var lab *ast.LabeledStmt
				if !inList(x, par) {
					l, isLab := par.(*ast.LabeledStmt)
					if !isLab || !inList(l, parent(2)) {
						fail(fset, x.Pos(), "range-over-map not in a statement list")
						break
					}
					lab = l
				}
				f.rewriteMapRange(x, u, lab)
			}
		case *ast.CallExpr:
			// make([]byte, n) with a run-time length: goes through the simulated allocator so that
			// a corrupted length field cannot make the harness allocate gigabytes (DESIGN 3.1)
			if id, ok := x.Fun.(*ast.Ident); ok && id.Name == "make" && len(x.Args) == 2 {
				if _, isB := info.Uses[id].(*types.Builtin); isB {
					if sl, ok := info.Types[x.Args[0]].Type.Underlying().(*types.Slice); ok {
						if b, ok := sl.Elem().Underlying().(*types.Basic); ok && b.Kind() == types.Uint8 && info.Types[x.Args[1]].Value == nil &&
							types.Identical(info.Types[x.Args[0]].Type, types.NewSlice(types.Typ[types.Uint8])) {
							f.repl(x.Pos(), x.Args[1].Pos(), "simrt.MakeBytes(int(")
							f.ins(x.Args[1].End(), ")")
							stats["make_bytes"]++
						}
					}
				}
				break
			}
			name := funcFullName(info, x.Fun)
			if name == "" {
				break
			}
			if tag, ok := allowed[name]; ok {
				stats["allowed_"+tag]++
				break
			}
			if forbidden[name] {
				fail(fset, x.Pos(), "call of %s has no rewrite rule", name)
				break
			}
			rule, ok := callRules[name]
			if !ok {
				break
			}
			handledCall[x] = true
			f.rewriteCall(x, rule, name)
		case *ast.SelectorExpr:
			// method values of rewritten functions (not in call position) cannot be intercepted
			if c, ok := par.(*ast.CallExpr); ok && c.Fun == x {
				break
			}
			name := funcFullName(info, x)
			if _, ok := callRules[name]; ok {
				fail(fset, x.Pos(), "%s used as a value, cannot instrument", name)
			}
		}
		return true
	})
}

func (f *fileCtx) rewriteCall(x *ast.CallExpr, rule callRule, name string) {
	info := f.pkg.TypesInfo
	var head string
	if rule.recv {
		sel, ok := x.Fun.(*ast.SelectorExpr)
		if !ok {
			fail(f.pkg.Fset, x.Pos(), "method call %s without selector", name)
			return
		}
		rt := info.Types[sel.X].Type
		recv := "(" + f.text(sel.X) + ")"
		if s := info.Selections[sel]; s != nil && len(s.Index()) > 1 {
			// promoted method: spell out the path of embedded fields down to the value the method belongs to
			cur := rt
			for _, idx := range s.Index()[:len(s.Index())-1] {
				if p, ok := cur.Underlying().(*types.Pointer); ok {
					cur = p.Elem()
				}
				st, ok := cur.Underlying().(*types.Struct)
				if !ok || idx >= st.NumFields() {
					fail(f.pkg.Fset, x.Pos(), "%s through an embedded field: cannot resolve the path", name)
					return
				}
				fld := st.Field(idx)
				recv += "." + fld.Name()
				cur = fld.Type()
			}
			rt = cur
			stats["promoted_method"]++
		}
		_, isPtr := rt.Underlying().(*types.Pointer)
		_, isIface := rt.Underlying().(*types.Interface)
		if !isPtr && !isIface {
			recv = "&" + recv
		}
		head = "simrt." + rule.fn + "(" + recv
		if len(x.Args) > 0 {
			head += ", "
		}
	} else {
		head = "simrt." + rule.fn + "("
	}
	f.repl(x.Pos(), x.Lparen+1, head)
	if rule.site {
		sep := ", "
		if !rule.recv && len(x.Args) == 0 {
			sep = ""
		}
		f.ins(x.Rparen, fmt.Sprintf("%s%q", sep, f.site(x.Pos())))
	}
	if rule.keepPath != "" {
		f.keep[rule.keepPath] = true
	}
	stats["call_"+rule.fn]++
}

func (f *fileCtx) rewriteGo(g *ast.GoStmt) {
	info := f.pkg.TypesInfo
	call := g.Call
	if call.Ellipsis.IsValid() {
		fail(f.pkg.Fset, g.Pos(), "go statement with variadic spread")
		return
	}
	if tv, ok := info.Types[call.Fun]; ok && (tv.IsType() || tv.IsBuiltin()) {
		fail(f.pkg.Fset, g.Pos(), "go statement on a conversion or builtin")
		return
	}
	site := f.site(g.Pos())
	f.repl(g.Pos(), call.Fun.Pos(), "{ _simf := ")
	var names []string
	prevEnd := call.Fun.End()
	for i, a := range call.Args {
		tv := info.Types[a]
		if tv.Value != nil || tv.IsNil() {
			// constants and nil are not hoisted (their type comes from the parameter)
			names = append(names, f.text(a))
			f.repl(prevEnd, a.End(), "")
			prevEnd = a.End()
			continue
		}
		n := fmt.Sprintf("_sima%d", i)
		names = append(names, n)
		f.repl(prevEnd, a.Pos(), "; "+n+" := ")
		prevEnd = a.End()
	}
	f.repl(prevEnd, call.End(), fmt.Sprintf("; simrt.Go(%q, func() { _simf(%s) }) }", site, strings.Join(names, ", ")))
	stats["go"]++
}

func (f *fileCtx) rewriteMapRange(x *ast.RangeStmt, m *types.Map, lab *ast.LabeledStmt) {
	fset := f.pkg.Fset
	// a label stays on the loop statement it names (continue/break L), which is the generated inner for
	label, from := "", x.Pos()
	if lab != nil {
		label, from = lab.Label.Name+": ", lab.Pos()
	}
	if x.Key == nil {
		// for range m: only the number of iterations matters
		f.repl(from, x.Body.Lbrace+1, fmt.Sprintf("{ %sfor _simi := 0; _simi < len(%s); _simi++ { ", label, f.text(x.X)))
		f.ins(x.End(), " }")
		stats["range_map"]++
		return
	}
	var sorter string
	if b, ok := m.Key().Underlying().(*types.Basic); ok {
		switch b.Kind() {
		case types.String:
			sorter = "SortStrings"
		case types.Int:
			sorter = "SortInts"
		case types.Int64:
			sorter = "SortInt64s"
		case types.Int32:
			sorter = "SortInt32s"
		}
	}
	if sorter == "" || m.Key() != m.Key().Underlying() {
		// any other key type: order by the printed key (reflection). Keys whose printed form is an address have no
		// order that survives a process boundary.
		switch m.Key().Underlying().(type) {
		case *types.Pointer, *types.Chan, *types.Interface, *types.Signature:
			fail(fset, x.Pos(), "range over map with key type %s: no canonical order", m.Key())
			return
		}
		sorter = "SortPrinted"
	}
	kt := f.typeString(m.Key(), x.Pos())
	id := f.selID
	f.selID++
	mv := fmt.Sprintf("_simm%d", id)
	ks := fmt.Sprintf("_simks%d", id)
	sortArg := ks
	if sorter == "SortPrinted" {
		sortArg = "&" + ks
	}
	head := fmt.Sprintf("{ %s := %s; %s := make([]%s, 0, len(%s)); for _simk := range %s { %s = append(%s, _simk) }; simrt.%s(%s); %sfor _, _simi := range simrt.MapOrder(len(%s)) { ",
		mv, f.text(x.X), ks, kt, mv, mv, ks, ks, sorter, sortArg, label, ks)
	op := ":="
	if x.Tok == token.ASSIGN {
		op = "="
	}
	keyName := f.text(x.Key)
	keyRef := keyName
	if keyName == "_" {
		keyRef = fmt.Sprintf("_simkey%d", id)
		head += fmt.Sprintf("%s := %s[_simi]; ", keyRef, ks)
	} else {
		head += fmt.Sprintf("%s %s %s[_simi]; ", keyName, op, ks)
	}
	if x.Value != nil && f.text(x.Value) != "_" {
		if x.Tok == token.ASSIGN {
			head += fmt.Sprintf("if _simv, _simok := %s[%s]; !_simok { continue } else { %s = _simv }; ", mv, keyRef, f.text(x.Value))
		} else {
			head += fmt.Sprintf("%s, _simok%d := %s[%s]; if !_simok%d { continue }; ", f.text(x.Value), id, mv, keyRef, id)
		}
	} else {
		head += fmt.Sprintf("if _, _simok := %s[%s]; !_simok { continue }; ", mv, keyRef)
	}
	f.repl(from, x.Body.Lbrace+1, head)
	f.ins(x.End(), " }")
	stats["range_map"]++
}

func (f *fileCtx) rewriteSelect(sel *ast.SelectStmt, hr map[*ast.UnaryExpr]bool, hs map[*ast.SendStmt]bool) {
	info := f.pkg.TypesInfo
	fset := f.pkg.Fset
	id := f.selID
	f.selID++
	site := f.site(sel.Pos())
	type cc struct {
		clause *ast.CommClause
		kind   string // recv, send
		chExpr ast.Expr
		valExp ast.Expr // send value
		lhs    []ast.Expr
		tok    token.Token
		elem   types.Type
	}
	var cases []cc
	var def *ast.CommClause
	for _, c := range sel.Body.List {
		cl := c.(*ast.CommClause)
		if cl.Comm == nil {
			def = cl
			continue
		}
		var k cc
		k.clause = cl
		switch s := cl.Comm.(type) {
		case *ast.SendStmt:
			k.kind = "send"
			k.chExpr = s.Chan
			k.valExp = s.Value
			hs[s] = true
		case *ast.ExprStmt:
			u, ok := s.X.(*ast.UnaryExpr)
			if !ok || u.Op != token.ARROW {
				fail(fset, s.Pos(), "unsupported select comm clause")
				return
			}
			k.kind = "recv"
			k.chExpr = u.X
			hr[u] = true
		case *ast.AssignStmt:
			if len(s.Rhs) != 1 {
				fail(fset, s.Pos(), "unsupported select comm clause")
				return
			}
			u, ok := s.Rhs[0].(*ast.UnaryExpr)
			if !ok || u.Op != token.ARROW {
				fail(fset, s.Pos(), "unsupported select comm clause (parenthesised receive?)")
				return
			}
			k.kind = "recv"
			k.chExpr = u.X
			k.lhs = s.Lhs
			k.tok = s.Tok
			hr[u] = true
		default:
			fail(fset, cl.Pos(), "unsupported select comm clause")
			return
		}
		ct, ok := info.Types[k.chExpr].Type.Underlying().(*types.Chan)
		if !ok {
			fail(fset, cl.Pos(), "select operand is not a channel")
			return
		}
		k.elem = ct.Elem()
		cases = append(cases, k)
	}
	n := len(cases)
	if n == 0 && def == nil {
		// select {}
		f.repl(sel.Pos(), sel.End(), fmt.Sprintf("for { simrt.BlockForever(%q) }", site))
		stats["select_forever"]++
		return
	}
	v := func(s string, i int) string { return fmt.Sprintf("_sim%s%d_%d", s, id, i) }
	var b strings.Builder
	b.WriteString("{ ")
	for i, k := range cases {
		fmt.Fprintf(&b, "%s := %s; ", v("c", i), f.text(k.chExpr))
		et := f.typeString(k.elem, k.clause.Pos())
		if k.kind == "send" {
			fmt.Fprintf(&b, "var %s %s = %s; ", v("v", i), et, f.text(k.valExp))
		} else {
			fmt.Fprintf(&b, "var %s %s; var %s bool; _, _ = %s, %s; ", v("r", i), et, v("ok", i), v("r", i), v("ok", i))
		}
	}
	comm := func(i int) string {
		k := cases[i]
		if k.kind == "send" {
			return fmt.Sprintf("%s <- %s", v("c", i), v("v", i))
		}
		return fmt.Sprintf("%s, %s = <-%s", v("r", i), v("ok", i), v("c", i))
	}
	fmt.Fprintf(&b, "switch simrt.Select(%q, %d, %v, func(_simi int) bool { switch _simi { ", site, n, def != nil)
	for i := range cases {
		fmt.Fprintf(&b, "case %d: select { case %s: return true; default: return false }; ", i, comm(i))
	}
	b.WriteString("}; return false }, func() int { ")
	if n > 0 {
		b.WriteString("select { ")
		for i := range cases {
			fmt.Fprintf(&b, "case %s: return %d; ", comm(i), i)
		}
		b.WriteString("} ")
	} else {
		b.WriteString("return -1 ")
	}
	b.WriteString("}) {")
	// header replaces "select {"
	f.repl(sel.Pos(), sel.Body.Lbrace+1, b.String())
	for i, k := range cases {
		var pre string
		if len(k.lhs) > 0 {
			op := ":="
			if k.tok == token.ASSIGN {
				op = "="
			}
			if len(k.lhs) == 1 {
				pre = fmt.Sprintf(" %s %s %s;", f.text(k.lhs[0]), op, v("r", i))
			} else {
				pre = fmt.Sprintf(" %s, %s %s %s, %s;", f.text(k.lhs[0]), f.text(k.lhs[1]), op, v("r", i), v("ok", i))
			}
		}
		f.repl(k.clause.Pos(), k.clause.Colon+1, fmt.Sprintf("case %d:%s", i, pre))
	}
	if def != nil {
		f.repl(def.Pos(), def.Colon+1, "default:")
	}
	f.ins(sel.End(), " }")
	stats["select"]++
}
